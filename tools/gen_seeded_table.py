#!/usr/bin/env python3
"""Prints the markdown rows of DESIGN.md §11 from seeded/*/meta.json (and replaces SEEDED_TABLE / the previous table in DESIGN.md)."""
import json, glob, os, re
rows=[]
for d in sorted(glob.glob('/verif/seeded/*/')):
    m=json.load(open(d+'meta.json'))
    slug=os.path.basename(d.rstrip('/'))
    det=m.get('detected_by_check','')
    rows.append(f"| `{slug}` | {m['property']} quick{' (after strengthening)' if 'after' in det else ''} | {m.get('needs_to_manifest','')} |")
table="\n".join(rows)
p='/verif/DESIGN.md'
s=open(p).read()
if 'SEEDED_TABLE' in s:
    s=s.replace('SEEDED_TABLE', '<!-- seeded:begin -->\n'+table+'\n<!-- seeded:end -->')
else:
    s=re.sub(r'<!-- seeded:begin -->.*?<!-- seeded:end -->', lambda m: '<!-- seeded:begin -->\n'+table+'\n<!-- seeded:end -->', s, flags=re.S)
open(p,'w').write(s)
print(len(rows),"rows")
