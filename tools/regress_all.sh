#!/bin/bash
# Re-applies every seeded change and every mutation to /repo (one at a time), runs the quick tier of its
# property's check and records whether it is caught. Output: /verif/detection_matrix.tsv
# optional argument: a property id (e.g. C12) -- only its changes are re-run and their rows replaced
ONLY=${1:-}
# "missing" = only the changes that have no row yet
MISSING=0; if [ "$ONLY" = "missing" ]; then MISSING=1; ONLY=""; fi
OUT=/verif/detection_matrix.tsv
if [ $MISSING = 1 ]; then :; elif [ -n "$ONLY" ]; then grep -v -P "\t$ONLY\t" $OUT > $OUT.tmp; mv $OUT.tmp $OUT; else echo -e "change\tproperty\tresult\tviolation_signatures" > $OUT; fi
for f in /verif/seeded/*/patch.diff /verif/mutations/*.patch; do
  case "$f" in
    */seeded/*) name=$(basename $(dirname $f));;
    *) name=$(basename $f .patch);;
  esac
  P=${name:0:3}
  if [ -n "$ONLY" ] && [ "$P" != "$ONLY" ]; then continue; fi
  if [ $MISSING = 1 ] && grep -q -P "^$name\t" $OUT; then continue; fi
  cd /repo
  export APPLY_OPTS=""
  if ! git apply --check "$f" 2>/dev/null; then
    # a later fix moved the context lines: retry with one line of context
    if git apply -C1 --check "$f" 2>/dev/null; then
      export APPLY_OPTS="-C1"
    else
      echo -e "$name\t$P\tdoes-not-apply-to-the-current-tree\t" >> $OUT; continue
    fi
  fi
  n=${P:1:2}
  MC_FEATURES="hooks,single,p$n" /verif/tools/try_mutation.sh "$f" $P quick 40 > /tmp/regress.out 2>&1
  rc=$(grep -o "exit=[0-9]*" /tmp/regress.out | tail -1)
  sigs=$(grep -a "^VIOLATION" /tmp/regress.out | grep -o "sig=[^ ]*" | sed 's/sig=//' | sort -u | head -4 | tr '\n' ' ')
  case "$rc" in
    exit=1) res=caught;;
    exit=0) res=MISSED;;
    *) res="machinery-$rc";;
  esac
  echo -e "$name\t$P\t$res\t$sigs" >> $OUT
  git -C /repo checkout -- . 2>/dev/null
done
git -C /repo status --short
# back to the complete harness
(cd /verif/mc && cargo build --offline --profile checked --features hooks >/dev/null 2>&1)
echo done
