#!/usr/bin/env python3
"""Generate /verif/MANIFEST.json from the table below (kept in one place so it stays valid)."""
import json, subprocess, sys

CHECKS = {
 # id: (engine, technique, level text, level note, design ref)
 "C01": ("E1-history-bfs", "explicit-state BFS over operation histories of 21 real store types against a reference quad set, canonical key = content + term-index order; full product of shipped matcher kinds per state",
         "Every reachable store state (content and hidden term-index order) up to the depth bound is visited for each shipped implementation incl. a 3-bit index width that makes index-full reachable; every mutation flag/count is compared with the mathematical set, and in each state contains(), all term enumerators and quads_matching over the product of real matcher kinds (constant, list, Option, slice, kind, Not, closure, datatype, language, quoted-triple; graph-name matchers) are compared with a reference filter. 16-bit exhaustion is explored on a store pre-filled with 65532 terms.",
         "Small-scope hypothesis (10 colliding quads, depth bound); quick tier checks a state-dependent 1/16 slice of the matcher product per state (thorough: 1/4); Vec stores compared as lists.", "DESIGN.md §4 C01"),
 "C02": ("E4-word-enumerator", "exhaustive pairwise (and triple-wise) comparison of every realisation of a finite abstract term set in every shipped Term implementation against a structural model",
         "All ordered pairs of realisations across 19 statically typed Term implementations plus parser-internal (Rio) and canonicalisation terms are compared for eq/hash/cmp with a structural model of RDF term identity and with SimpleTerm's order; all triples for transitivity; 13 conversion paths per realisation.",
         "Finite term set (IRIs, blank nodes, variables, literals over 4 lexical forms x 4 datatypes x 5 tags, natives, quoted triples to depth 2); JSON-LD's internal RdfTerm and IsoTerm are not constructible from outside their crates and are exercised by C12/C07.", "DESIGN.md §4 C02"),
 "C03": ("E4-word-enumerator", "exhaustive enumeration of lexical forms, blank node labels, language tags and IRIs up to a length, placed in every legal position, serialised and parsed back in crash-attributing worker processes; output also read by an independent W3C-grammar reader",
         "Every string up to the bound over alphabets chosen for the escaping rules (quotes, backslash, CR/LF/TAB, C0 controls, DEL, combining marks, non-BMP, U+FFFE; label characters incl. dots, leading digits, middle dot) is serialised in N-Triples/N-Quads in every position incl. nested quoted triples and parsed back: exact equality of the quads, one line per statement, and an independent reader of the W3C EBNF reads the same quads.",
         "Independent reader written from the EBNF; language tag case may be normalised (RDF 1.1 term equality); length bounds.", "DESIGN.md §4 C03"),
 "C04": ("E2-shape-lattice", "exhaustive enumeration of all datasets up to k statements over finite triple/quad universes (every sub-dataset exactly once, no symmetry reduction) x syntax x pretty/streaming x prefix maps x indentation, in crash-attributing worker processes; brute-force isomorphism oracle",
         "Every dataset up to the size bound over universes built to trigger each abbreviation both ways (blank node cycles of every length up to the bound, shared/unreferenced/branching/cyclic list cells, asserted-and-quoted triples, blank nodes spanning graphs, rdf:nil in every position) is serialised and parsed back; the result must be isomorphic (all blank node bijections tried) with no duplicate statement. Numeric/boolean shorthands and prefixed names are covered by enumerating all short lexical forms and local names. Hangs, aborts and memory blow-ups are attributed to the case by the worker pool.",
         "Small-scope hypothesis on dataset size; the toolkit's own Turtle/TriG parser reads the output; brute-force isomorphism model.", "DESIGN.md §4 C04"),
 "C05": ("E2-shape-lattice", "exhaustive enumeration of all small blank-node graphs (all digraphs / undirected graphs up to n nodes, decorated and symmetric families) x all relabellings x insertion orders x containers x hash functions; partition by canonical form compared with the partition by a brute-force canonical key",
         "For every graph of the enumerated families the canonical document is byte-identical under all n! relabellings, insertion orders and containers, parses back (independent reader + toolkit parser) to a dataset that the returned bijective id map carries the input onto, and within each exhaustive family two graphs share a canonical form exactly when a brute-force canonical labelling says they are isomorphic.",
         "Small-scope hypothesis (n <= 4/5/6 exhaustive; structured families to 13 nodes); property is conditional on success (ToxicGraph under default limits is not a violation).", "DESIGN.md §4 C05"),
 "C06": ("E2-shape-lattice", "the same exhaustive graph families, literals with every escape-relevant code point, and a limits matrix, compared byte for byte with an independent implementation of RDFC-1.0 written from the Recommendation",
         "Document (SHA-256 and SHA-384) and issued identifiers (through their effect on the input) equal those of the reference on every enumerated graph; unsupported inputs are refused with the right error; every (depth factor, permutation limit) setting gives the same document or a ToxicGraph error justified by the reference's own recursion-depth / group-size counters.",
         "The reference's reading of the Recommendation (assumptions A-C06-1/2, validated on the Recommendation's worked examples); automorphic blank nodes may be issued in any order (compared through the resulting document).", "DESIGN.md §4 C06, Appendix A"),
 "C07": ("E2-shape-lattice", "exhaustive enumeration of generalized datasets up to k quads over a finite universe x all blank-node label bijections x statement orders x container pairs, and all single-edit neighbours",
         "For every enumerated dataset the test answers true, in both argument orders and across container types, for every relabelled and reordered copy (blank nodes inside quoted triples and as graph names included), and false for every single-edit neighbour that differs in size, blank node count or bnode-blanked statements.",
         "Small-scope hypothesis (<= 2/3 quads, <= 4 blank nodes); false is only demanded where the property demands it.", "DESIGN.md §4 C07"),
 "C08": ("E4-word-enumerator", "exhaustive enumeration of bounded input families (all single edits of seed documents, token words, IRI/label/tag/variable strings at every syntactic position, nesting ladders, long tokens, configured bases) x 8 parsers x build profiles (checked, dev, release), every case run in a crash-attributing child process; oracle: returns, and every accessor of every yielded term passes the toolkit's own validators",
         "For every enumerated input each of the 8 parsers terminates without panic, abort or stack overflow (2 MiB thread for structural inputs) and every term it yields is valid for IriRef/Iri/BnodeId/LanguageTag/VarName (absolute IRIs from strict parsers), in builds with and without debug assertions.",
         "Validity = the toolkit's own validators; bounded families (edit distance 1 from 30 seed documents, <=4 tokens, <=3 IRI symbols, <=4 label/tag symbols, depth <= 10^6).", "DESIGN.md §4 C08, §9.1"),
 "C09": ("E3-product-automaton", "product of the DFA determinised from the crate's regex source with the DFA of the RFC 3987 ABNF (all strings), witness replay per product edge; bounded exhaustive string and (base, reference) pair enumeration against RFC 3986 5.2",
         "Language equality of the validator with RFC 3987 is decided for strings of every length by exploring all reachable product states; the model is bound to the code by construction (built from the crate's public regex source at run time) and by replaying a witness per product edge through every validating entry point. Base conversion, Namespace::get and resolution are checked exhaustively over all strings up to a length and all pairs of a generated IRI set.",
         "regex-automata determinisation; ABNF transcription (cross-checked against oxiri); RFC 3986 5.2 reference (validated on the 42 examples of 5.4); bounds of the string/pair enumerations.", "DESIGN.md §4 C09"),
 "C10": ("E1-history-bfs", "explicit-state BFS over histories interleaving insert/remove/growth with clone, drop, swap and take on two slots; address-based self-containment audit (cfg hook) + content comparison in every state",
         "All histories up to the depth bound over two slots for 10 store types; in every state the audit hook proves, by comparing addresses only, that each live index borrows exclusively from its own keys (the invariant behind the unsafe transmute), and contents/index order equal the reference, so that a clone sharing memory with its origin, or losing independence, is reported at the step that creates it.",
         "Memory safety is reduced to the self-containment invariant of SimpleTermIndex (no sanitizer run in these tiers); small-scope hypothesis.", "DESIGN.md §4 C10"),
 "C11": ("E1-history-bfs", "explicit-state BFS over operation histories on the real stores, differential against a twin store and a reference set",
         "Every reachable state of 9 store types under direct and through-view mutations up to the stated depth is visited; in each state every view is compared with the projection of a reference quad set under all pattern shapes. Exhaustive within the bound, on the real code.",
         "Small-scope hypothesis (4 triples x 4 graph names, depth bound); rustc/std; the reference set model.", "DESIGN.md §4 C11"),
 "C12": ("E2-shape-lattice", "exhaustive enumeration of datasets over finite quad universes and of all irregular list structures up to 3 cells x option combinations, round-tripped in crash-attributing worker processes with a brute-force isomorphism oracle",
         "Every single quad of a 1092-quad universe under all 12 option combinations, every dataset of <= 2/3 quads over a list-oriented universe in two graphs, every list structure of <= 3 cells with every combination of irregularities (typed, extra property, second rdf:first, cyclic or shared tail, 0/1/2 references, cross-graph), compound-literal shapes and inexpressible quads are serialised and parsed back with the same options; the result must be isomorphic to the input minus the inexpressible quads, without duplicates; panics/aborts/hangs are attributed to the case.",
         "Small-scope hypothesis; the toolkit's JSON-LD parser (third-party json-ld crate) reads the output; use_native_types excluded.", "DESIGN.md §4 C12"),
 "C13": ("E2-shape-lattice", "exhaustive enumeration of the product (generated queries up to a size bound) x (all small datasets), each evaluation compared with a reference evaluator of the SPARQL 1.1 algebra",
         "Every query generated from the supported grammar up to nesting depth 2 (BGPs with repeated variables, blank-node placeholders and quoted-triple patterns, UNION, GRAPH iri/?g incl. absent graphs and nested GRAPH, FILTER and BIND over expressions of depth <= 2 incl. unbound variables and type errors, DISTINCT, projection, OFFSET/LIMIT, ASK) is evaluated on every dataset of the bounded family and compared as a multiset of solutions with the reference; unsupported operators must answer NotImplemented; no panic.",
         "Reference evaluator written from SPARQL 1.1 section 18; bounded query size and dataset size; OFFSET/LIMIT compared as sub-multisets of the right size.", "DESIGN.md §4 C13"),
 "C14": ("E4-word-enumerator", "the engine's ORDER BY comparator is extracted end to end from all ordered pairs of a value alphabet and checked exhaustively on all pairs and triples; all 3-subsets x insertion orders x key lists are sorted end to end",
         "The relation read from two-row sorts over every ordered pair of ~50 values covering every value class is a strict weak order (irreflexive, asymmetric, transitive, transitive ties), ranks unbound < blank node < IRI < literal and contains SPARQL '<' wherever a reference implementation of the operator defines it; every 3-subset in all 6 insertion orders under ASC/DESC/tie-breaking/unbound keys comes back as a correctly sorted permutation; long mixed inputs sort without panic.",
         "Finite value alphabet; the relation is read through slice::sort_unstable_by on two rows (pinned toolchain); zoned/unzoned dateTime comparisons demanded only when determinate.", "DESIGN.md §4 C14"),
 "C15": ("E1-history-bfs", "exhaustive fault enumeration: every (item sequence, source, adapter chain, drop sets, consumer, fault position) pipeline of the bounded space is executed on the real code and compared with a list model",
         "All pipelines of <= 3/4 items x 4 sources x 40+16 adapter chains (every word of length <= 3 over filter/map/filter_map, and to_quads variants) x drop sets x 12 consumers x every single source-fault and sink-fault position (and their combinations) are run; the consumer must see exactly the filtered prefix before the fault, in order, the error must be attributed to the right side with the injected payload, counts must be right and the source must not be pulled after the fault.",
         "Bounded item count and chain depth; parser read-ahead is not observed.", "DESIGN.md §4 C15"),
 "C16": ("E5-crash-attributing-pool", "exhaustive enumeration of the operation x build profile (dev, release) x size ladder, every case run in a child process on a 2 MiB thread; oracle: stack high-water marks (painted stack) at two sizes must not differ, and the largest sizes must complete or fail with an error value",
         "For each of 291 operations (every constant/non-constant pattern shape in every in-memory store, escapes, SPARQL forms, serializers x statement shapes, parsers, mutations, c14n, isomorphism) and both profiles, the stack high-water mark does not grow between two input sizes; in the thorough tier the operation also completes at 20 000, 100 000 and 1 000 000 elements on a 2 MiB stack (time-capped cases listed).",
         "Stack depth is monotone in input size; inputs are built outside the measured thread; dev profile = opt-level 0 for every crate.", "DESIGN.md §4 C16"),
 "C17": ("E4-word-enumerator", "exhaustive enumeration of all ordered (base, IRI) pairs of a generated IRI set x all parent-step limits, each answer resolved back through the real resolver",
         "Every ordered pair of a structured IRI universe (authority/no authority, rooted/rootless/empty paths, empty and dot segments, ':' in segments, multi-byte characters, queries and fragments containing '/' and '?') is relativised under 5 parent-step limits; every returned reference is validated, resolved back and its parent steps counted; None is rejected only where the property promises a reference.",
         "Small-scope hypothesis (<= 2/3 path segments over an 8-segment alphabet); inverse taken w.r.t. the toolkit's resolver.", "DESIGN.md §4 C17"),
 "C18": ("E4-word-enumerator", "exhaustive enumeration of literal texts up to a length over an XML-oriented alphabet x literal kinds, predicate IRIs over all namespace split shapes, small graphs, x indentations 0..8, in crash-attributing workers; independent XML well-formedness recogniser + isomorphism oracle",
         "Every enumerated graph either makes the serializer fail or yields a document that an independent XML 1.0 recogniser accepts and that parses back (toolkit parser) to a graph isomorphic to the expressible part, identically for every indentation; graphs with XML-legal text and QName-able predicates must be accepted.",
         "Independent recogniser in model/xmlwf.rs; the toolkit's RDF/XML reader (third-party rio_xml) reads the output; length bounds.", "DESIGN.md §4 C18"),
 "C19": ("E4-word-enumerator", "exhaustive enumeration of IRIs (all segment sequences up to a length over a traversal-oriented alphabet) x namespace/directory configurations, with a cfg-hook log of every path handed to the file system",
         "Every valid IRI built from 5 namespaces x paths of bounded length over dot segments, empty segments, encoded dots and slashes, sibling names and absolute paths, with and without extension/fragment/query, is loaded directly and as a followed link under 4 configurations; every path probed (including failed content-negotiation retries) must lie inside a directory whose namespace prefixes the IRI, and no marker content from outside may be returned.",
         "Real file system in a temporary tree; no symlinks; path alphabet and length bound.", "DESIGN.md §4 C19"),
 "C20": ("E4-word-enumerator", "exhaustive enumeration of native values (all i32 in the thorough tier, a complete exponent x mantissa-pattern grid of f64) and of all short lexical forms x datatypes x target types against the XSD lexical/value spaces",
         "Forward: every enumerated native value yields a literal whose lexical form is in the lexical space of its datatype, denotes the value and converts back to it (also through SimpleTerm, ArcTerm and an N-Triples round trip). Reverse: every lexical form up to a length over a 17-symbol alphabet, for 19 datatypes and 5 target types, never panics and succeeds only with the value the literal denotes.",
         "XSD 1.1 lexical grammars transcribed in the harness; Rust's float parser as correctly-rounded reference on validated forms; facet ranges of derived types not demanded.", "DESIGN.md §4 C20"),
}
PENDING_REASON = "no check registered yet in this revision (the explorer for this property is still being built; see DESIGN.md §4)"

def main():
    props = [json.loads(l)["id"] for l in open("/verif/properties.jsonl")]
    hooks = subprocess.run(["git","-C","/repo","log","--format=%H %s"],capture_output=True,text=True).stdout.splitlines()
    hook_commits = [l.split()[0] for l in hooks if " verif hook:" in l]
    checks=[]
    for pid in props:
        if pid not in CHECKS: continue
        eng, tech, text, note, ref = CHECKS[pid]
        checks.append({
            "property_id": pid,
            "quick_cmd": f"./check {pid} --tier quick",
            "thorough_cmd": f"./check {pid} --tier thorough",
            "evidence_file": f"/verif/evidence/{pid}.json",
            "replay_cmd_template": f"./check {pid} --replay {{path}}",
            "engine": eng,
            "level_claimed": {"category": "model_checking", "text": text, "design_ref": ref},
            "level_note": note,
            "technique": tech,
        })
    m = {
        "version": 1,
        "setup_cmd": "cd /verif/mc && CARGO_NET_OFFLINE=true cargo build --offline --profile checked --features hooks && CARGO_NET_OFFLINE=true cargo build --offline --features hooks,slim && CARGO_NET_OFFLINE=true cargo build --offline --release --features hooks,slim",
        "hooks": {
            "guard": "cargo feature `sophia_verif` (crates sophia_inmem, sophia_resource); off by default",
            "enable": "the harness crate /verif/mc depends on the /repo crates by path and enables sophia_inmem/sophia_verif and sophia_resource/sophia_verif through its feature `hooks` (./check always builds with --features hooks)",
            "baseline_off_cmd": "cd /repo && cargo nextest run --workspace --no-fail-fast --offline --test-threads 8 || cargo test --workspace --no-fail-fast --offline",
            "source_commits": hook_commits,
            "add_only": True,
        },
        "engines": [
            {"name": "E1-history-bfs", "path": "/verif/mc/src/bfs.rs", "serves_properties": ["C01","C10","C11","C15"], "kind_free_text": "explicit-state BFS over operation histories; states rebuilt by replay on fresh real objects, deduplicated by canonical key"},
            {"name": "E2-shape-lattice", "path": "/verif/mc/src/fw.rs", "serves_properties": ["C04","C05","C06","C07","C12","C13","C18"], "kind_free_text": "enumeration of every sub-dataset of a finite quad universe up to k statements (DFS over the add-one-statement lattice)"},
            {"name": "E3-product-automaton", "path": "/verif/mc/src/props/c09.rs", "serves_properties": ["C09"], "kind_free_text": "all reachable states of the product of the code's regex DFA and the RFC 3987 reference DFA, with witness replay against the real API"},
            {"name": "E4-word-enumerator", "path": "/verif/mc/src/fw.rs", "serves_properties": ["C02","C03","C08","C09","C14","C17","C19","C20"], "kind_free_text": "all words up to length n over a finite alphabet / all edits of a seed corpus"},
            {"name": "E5-crash-attributing-pool", "path": "/verif/mc/src/pool.rs", "serves_properties": ["C03","C04","C08","C12","C16","C18"], "kind_free_text": "child processes with RLIMIT_AS, per-case watchdog and in-flight case cell; aborts, stack overflows and hangs are attributed to the case"},
        ],
        "checks": checks,
        "not_applicable": [{"property_id": p, "reason": PENDING_REASON} for p in props if p not in CHECKS],
        "notes": "All checks are bounded exhaustive explorations of the real code (model checking family); see DESIGN.md. Known findings: /verif/known_findings.json.",
    }
    json.dump(m, open("/verif/MANIFEST.json","w"), indent=1)
    print("checks:", [c["property_id"] for c in checks], "pending:", len(m["not_applicable"]))

main()
