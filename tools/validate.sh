#!/bin/sh
# validate MANIFEST.json and every evidence file against the schemas
python3-vt - <<'PY'
import json, jsonschema, glob
jsonschema.validate(json.load(open('/verif/MANIFEST.json')), json.load(open('/root/.vp/MANIFEST.schema.json')))
for f in sorted(glob.glob('/verif/evidence/*.json')):
    jsonschema.validate(json.load(open(f)), json.load(open('/root/.vp/EVIDENCE.schema.json')))
    print('ok', f)
print('manifest ok')
PY
