#!/bin/bash
# usage: tools/new_seed_round.sh Cxx [n]  -- creates /tmp/wt-Cxx (+ -out) and /tmp/seedprompts/Cxx.txt containing only the property text
P=$1; N=${2:-2}
git -C /repo worktree add -q --detach /tmp/wt-$P HEAD || exit 1
mkdir -p /tmp/wt-$P-out /tmp/seedprompts
python3 - "$P" "$N" <<'PY'
import json,sys
pid,n=sys.argv[1],sys.argv[2]
for l in open('/verif/properties.jsonl'):
    p=json.loads(l)
    if p['id']==pid: break
prop=json.dumps({k:p[k] for k in ('title','statement','quantifier','why_tests_cant','anchors')},indent=1)
wt=f"/tmp/wt-{pid}"; out=f"/tmp/wt-{pid}-out"
t=f'''You are helping to evaluate a verification effort on the Rust RDF toolkit "sophia_rs". You have your own scratch git worktree of the repository at {wt} (do NOT touch /repo, and do NOT read anything under /verif — work only inside {wt} and write your outputs to {out}). There is no network; use `--offline` with cargo.

Here is a semantic property the library is supposed to satisfy:

{prop}

Your job: produce {n} DIFFERENT realistic code changes ("seeded defects") to the library sources in {wt}, each of which
 (a) compiles,
 (b) keeps the repository's whole existing test suite passing: run `cargo nextest run --workspace --no-fail-fast --offline --test-threads 8` in {wt} and expect "2514 tests run: 2514 passed" (this is essential — if a test fails, choose a different change),
 (c) genuinely BREAKS the property above for some inputs (not all inputs; ideally for a specific family of inputs that a casual test would not hit), and
 (d) looks like a plausible mistake or "optimisation" a maintainer could make in the anchored code (off-by-one, a shortcut, a missing case, a wrong key, a dropped check, a reordered step, a cache that is not invalidated, a fast path with a wrong guard...), not sabotage like `panic!()` or deleting a whole function. Keep each change small (a few lines). Choose changes in different places/mechanisms from each other, and prefer subtle ones: defects that only show for unusual but legal inputs, or only after a particular sequence of operations.

For each change k = 1..{n} write into {out}:
 - patch{{k}}.diff : `git diff` of the change relative to the worktree HEAD (only library source changes, no test files; it must apply with `git apply` on a clean checkout),
 - demo{{k}}.rs : a self-contained Rust integration test file (to be dropped as `<crate>/tests/demo{{k}}.rs` of the most relevant crate, using only that crate's existing dependencies and dev-dependencies) with one or more `#[test]` functions that FAIL with the patch applied and PASS on the clean checkout, demonstrating the concrete input on which the property breaks,
 - notes{{k}}.md : a few lines: which crate directory the demo belongs to, what the change is, which inputs break, and why the existing suite does not notice.
Verify (b), and that the demo fails with / passes without the patch, yourself before finishing. Between changes restore the worktree with `git -C {wt} checkout -- .` (and delete any demo test file you dropped in). Leave the worktree clean at the end (all outputs live in {out}). Do not commit anything.

In your final answer, list for each k: the crate directory for the demo, a one-line description, and the confirmation results.'''
open(f'/tmp/seedprompts/{pid}.txt','w').write(t)
PY
echo "prepared $P"
