#!/usr/bin/env python3
"""Rewrites the per-property coverage table of DESIGN.md (§8.1) from evidence/*.json and MANIFEST.json."""
import json, glob, re
man=json.load(open('/verif/MANIFEST.json'))
rows=[]
for c in sorted(man['checks'], key=lambda c:c['property_id']):
    pid=c['property_id']
    try:
        e=json.load(open(f'/verif/evidence/{pid}.json'))
    except Exception:
        continue
    cov=e['coverage']
    rule=cov.get('rule','')
    rows.append(f"| {pid} | {c.get('engine','')} | {e['tier']} | {cov.get('states')} | {cov.get('transitions')} | {cov.get('distinct_outcomes')} | {e['wall_s']:.0f} s | {'yes' if cov.get('exhaustive') else 'no: '+'; '.join(cov.get('caps_hit',[]))[:120]} |")
table="| prop | engine | tier of the committed evidence | states / cases | transitions / evaluations | distinct outcomes | wall | explored to the stated bound |\n|---|---|---|---|---|---|---|---|\n"+"\n".join(rows)
p='/verif/DESIGN.md'
s=open(p).read()
s=re.sub(r'<!-- coverage:begin -->.*?<!-- coverage:end -->', lambda m:'<!-- coverage:begin -->\n'+table+'\n<!-- coverage:end -->', s, flags=re.S)
open(p,'w').write(s)
print(len(rows),'rows')
