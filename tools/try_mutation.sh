#!/bin/sh
# usage: tools/try_mutation.sh <patch file> <Cxx> [tier]   -- applies a patch to /repo, runs the check, reverts
P=$(readlink -f "$1"); PROP=$2; TIER=${3:-quick}
cd /repo || exit 2
git apply ${APPLY_OPTS:-} "$P" || { echo "patch does not apply"; exit 2; }
cp /verif/evidence/$PROP.json /tmp/evidence-$PROP.keep 2>/dev/null
cd /verif && ./check "$PROP" --tier "$TIER" > /tmp/mut.out 2>&1; RC=$?
# the evidence file must describe the unchanged tree: put it back
[ -f /tmp/evidence-$PROP.keep ] && mv /tmp/evidence-$PROP.keep /verif/evidence/$PROP.json
grep -c "^VIOLATION" /tmp/mut.out | sed "s/^/violation lines: /"
grep "^VIOLATION" /tmp/mut.out | cut -c1-330 | head -${4:-4}
tail -n 1 /tmp/mut.out | cut -c1-300
echo "exit=$RC"
git -C /repo checkout -- . ; git -C /repo status --short
