#!/bin/bash
# usage: tools/process_seed.sh Cxx k crate [tier] -- verify the seed in its worktree, then run the check against it
P=$1; K=$2; CRATE=$3; TIER=${4:-quick}
echo "##### $P seed $K ($CRATE)"
/verif/tools/verify_seed.sh $P $K $CRATE 2>&1 | grep -E "Summary|^test result|PATCH DOES NOT" | awk '{print "   verify: "$0}'
/verif/tools/try_mutation.sh /tmp/wt-$P-out/patch$K.diff $P $TIER 2 2>&1 | grep -v "^KNOWN" | cut -c1-330 | awk '{print "   check: "$0}'
