#!/usr/bin/env python3
"""save_seed.py <Cxx> <k> <slug> <crate> <detected: yes|no|after-strengthening> <needs...>"""
import sys, os, shutil, json
prop,k,slug,crate,detected=sys.argv[1:6]; needs=" ".join(sys.argv[6:])
src=f"/tmp/wt-{prop}-out"; dst=f"/verif/seeded/{prop}-{slug}"
os.makedirs(dst,exist_ok=True)
shutil.copy(f"{src}/patch{k}.diff",f"{dst}/patch.diff")
shutil.copy(f"{src}/demo{k}.rs",f"{dst}/demo.rs")
if os.path.exists(f"{src}/notes{k}.md"): shutil.copy(f"{src}/notes{k}.md",f"{dst}/notes.md")
meta={"property":prop,"breaks":prop,"origin":"independent sub-agent given only the property text and a scratch worktree",
 "needs_to_manifest":needs,
 "demo":f"drop demo.rs as {crate}/tests/demo.rs; `cargo test --offline --test demo` fails with patch.diff applied and passes without",
 "confirmed_by_me":["patch applies on /repo HEAD","cargo nextest run --workspace: 2514 passed with the patch","demo fails with the patch","demo passes without the patch"],
 "detected_by_check":detected,
 "ran":[f"tools/verify_seed.sh {prop} {k} {crate}",f"tools/try_mutation.sh seeded/{prop}-{slug}/patch.diff {prop} quick"]}
json.dump(meta,open(f"{dst}/meta.json","w"),indent=1)
print("saved",dst)
