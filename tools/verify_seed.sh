#!/bin/bash
# usage: verify_seed.sh <Cxx> <k> <crate dir e.g. api>   (run in the agent's scratch worktree /tmp/wt-Cxx)
# confirms: patch applies; suite passes with it; demo fails with it; demo passes without it
P=$1; K=$2; CRATE=$3
WT=/tmp/wt-$P; OUT=/tmp/wt-$P-out
cd $WT || exit 2
git checkout -q -- . ; rm -f $CRATE/tests/demo$K.rs
git apply $OUT/patch$K.diff || { echo "PATCH DOES NOT APPLY"; exit 1; }
echo "== suite with patch"
cargo nextest run --workspace --no-fail-fast --offline --test-threads 8 2>&1 | grep -E "Summary|FAIL \[" | head -5
mkdir -p $CRATE/tests; cp $OUT/demo$K.rs $CRATE/tests/demo$K.rs
echo "== demo with patch (expected: failures)"
(cd $CRATE && cargo test --offline --test demo$K 2>&1 | grep -E "^test result|error(\[|:)" | head -3)
git checkout -q -- .
echo "== demo without patch (expected: ok)"
(cd $CRATE && cargo test --offline --test demo$K 2>&1 | grep -E "^test result|error(\[|:)" | head -3)
rm -f $CRATE/tests/demo$K.rs; git status --short | head -3
