#!/bin/bash
# runs every registered check (quick, then thorough) on the unchanged tree; summary in /tmp/run_all.tsv
OUT=/tmp/run_all.tsv; : > $OUT
cd /verif
for TIER in quick thorough; do
  for P in C01 C02 C03 C04 C05 C06 C07 C08 C09 C10 C11 C12 C13 C14 C15 C16 C17 C18 C19 C20; do
    s=$(date +%s)
    ./check $P --tier $TIER > /tmp/run_$P_$TIER.log 2>&1; rc=$?
    e=$(( $(date +%s) - s ))
    echo -e "$P\t$TIER\texit=$rc\t${e}s\t$(grep -c '^VIOLATION' /tmp/run_$P_$TIER.log) violation lines\t$(grep -c '^KNOWN-FINDING' /tmp/run_$P_$TIER.log) known" >> $OUT
  done
done
echo finished >> $OUT
