#![allow(clippy::all)]
#![allow(dead_code)]
#[cfg(not(feature = "slim"))]
mod bfs;
mod fw;
#[cfg(not(feature = "slim"))]
mod model;
mod pool;
mod props;
mod stack;

use fw::*;

fn usage() -> ! {
    eprintln!("usage: mc <Cxx> [--tier quick|thorough] [--replay <file>]\n       mc worker <Cxx> <tier> <id> <n> <skip_to> <cellfile> [--case-file f]\n       mc selftest");
    std::process::exit(2)
}

fn main() {
    let args: Vec<String> = std::env::args().skip(1).collect();
    if args.is_empty() {
        usage();
    }
    if args[0] == "worker" {
        let tier = if args[2] == "thorough" { Tier::Thorough } else { Tier::Quick };
        std::process::exit(props::worker(&args[1], tier, &args[3..]));
    }
    #[cfg(not(feature = "slim"))]
    if args[0] == "selftest" {
        match bfs::self_test() {
            Ok(()) => println!("bfs self-test ok"),
            Err(e) => {
                println!("bfs self-test FAILED: {e}");
                std::process::exit(2)
            }
        }
        return;
    }
    let prop = args[0].clone();
    let mut tier = match std::env::var("VERIF_TIER").as_deref() {
        Ok("thorough") => Tier::Thorough,
        _ => Tier::Quick,
    };
    let mut replay: Option<String> = None;
    let mut i = 1;
    while i < args.len() {
        match args[i].as_str() {
            "--tier" => {
                i += 1;
                tier = match args.get(i).map(|s| s.as_str()) {
                    Some("quick") => Tier::Quick,
                    Some("thorough") => Tier::Thorough,
                    _ => usage(),
                };
            }
            "--replay" => {
                i += 1;
                replay = Some(args.get(i).cloned().unwrap_or_else(|| usage()));
            }
            _ => usage(),
        }
        i += 1;
    }
    quiet_panics();
    if let Some(path) = replay {
        let txt = std::fs::read_to_string(&path).unwrap_or_else(|e| {
            eprintln!("cannot read {path}: {e}");
            std::process::exit(2)
        });
        let v: serde_json::Value = serde_json::from_str(&txt).unwrap_or_else(|e| {
            eprintln!("bad replay file: {e}");
            std::process::exit(2)
        });
        let case = v.get("case").cloned().unwrap_or(v.clone());
        let vs = props::replay(&prop, tier, &case);
        let findings = load_findings();
        let mut bad = false;
        for v in &vs {
            if findings.iter().any(|f| f.property == prop && f.key == v.sig) {
                println!("KNOWN-FINDING: property={prop} key={} {}", v.sig, truncate(&v.detail, 600));
            } else {
                println!("VIOLATION property={prop} replay={path} sig={} {}", v.sig, truncate(&v.detail, 1000));
                bad = true;
            }
        }
        if vs.is_empty() {
            println!("OK property={prop} replay={path}: the recorded case passes the oracle");
        }
        std::process::exit(if bad { 1 } else { 0 });
    }
    let rep = props::run(&prop, tier);
    std::process::exit(rep.finish());
}
