//! Crash-attributing worker pool: the cases of an enumeration are distributed over child
//! processes; each child publishes the index of the case in flight in a shared memory cell,
//! runs under RLIMIT_AS and a per-case watchdog.  When a child dies, the parent attributes the
//! death to the case in flight, records it as a violation and restarts the slice after it.
use crate::fw::*;
use serde_json::{Value, json};
use std::io::{BufRead, BufReader, Write};
use std::process::{Command, Stdio};
use std::sync::atomic::{AtomicU64, Ordering};
use std::time::{Duration, Instant};

pub trait Pooled: Sync {
    type Case;
    fn prop(&self) -> &'static str;
    /// deterministic enumeration of the case space; the index of a case is its rank in this enumeration
    fn enumerate(&self, tier: Tier, f: &mut dyn FnMut(&Self::Case));
    fn case_json(&self, c: &Self::Case) -> Value;
    fn case_from_json(&self, v: &Value) -> Option<Self::Case>;
    /// run one case through the oracle (the subject must be called inside `guarded`)
    fn run(&self, c: &Self::Case, st: &mut Stats) -> Vec<Violation>;
    fn timeout_s(&self) -> u64 {
        10
    }
    fn rlimit_as_bytes(&self) -> u64 {
        6 << 30
    }
    fn crash_sig(&self, _c: &Self::Case, kind: &str) -> String {
        format!("crash:{kind}")
    }
    fn workers(&self) -> usize {
        std::thread::available_parallelism().map(|n| n.get()).unwrap_or(8).min(16)
    }
    /// build profiles of the harness whose worker binaries run the cases ("checked", "dev", "release");
    /// a case that names a profile (see `case_profile`) is run only by workers of that profile
    fn profiles(&self) -> Vec<&'static str> {
        vec!["checked"]
    }
    fn case_profile(&self, _c: &Self::Case) -> Option<String> {
        None
    }
}

pub fn my_profile() -> String {
    std::env::var("MC_PROFILE").unwrap_or_else(|_| "checked".into())
}

fn exe_for(profile: &str) -> std::path::PathBuf {
    let exe = std::env::current_exe().expect("current_exe");
    let target = exe.parent().and_then(|d| d.parent()).expect("target dir").to_path_buf();
    let dir = match profile {
        "dev" => "debug",
        other => other,
    };
    let p = target.join(dir).join("mc");
    if !p.exists() {
        eprintln!("ENGINE ERROR: worker binary {} is missing (build the {profile} profile of the harness first)", p.display());
        std::process::exit(2);
    }
    p
}

const NONE: u64 = u64::MAX;

struct Cell {
    ptr: *mut AtomicU64,
}
unsafe impl Send for Cell {}
unsafe impl Sync for Cell {}
impl Cell {
    fn open(path: &str) -> Cell {
        use std::os::unix::io::AsRawFd;
        let f = std::fs::OpenOptions::new().read(true).write(true).create(true).truncate(false).open(path).expect("cell file");
        f.set_len(64).expect("cell len");
        let p = unsafe {
            libc::mmap(std::ptr::null_mut(), 64, libc::PROT_READ | libc::PROT_WRITE, libc::MAP_SHARED, f.as_raw_fd(), 0)
        };
        assert!(p != libc::MAP_FAILED, "mmap failed");
        Cell { ptr: p as *mut AtomicU64 }
    }
    fn at(&self, i: usize) -> &AtomicU64 {
        unsafe { &*self.ptr.add(i) }
    }
}

/// Child side. argv: worker <PROP> <tier> <id> <n> <skip_to> <cellfile> [--case-file f]
pub fn child<P: Pooled>(p: &P, tier: Tier, args: &[String]) -> i32 {
    let id: u64 = args[0].parse().unwrap();
    let n: u64 = args[1].parse().unwrap();
    let skip_to: u64 = args[2].parse().unwrap();
    let cell = Cell::open(&args[3]);
    let case_file = if args.len() >= 6 && args[4] == "--case-file" { Some(args[5].clone()) } else { None };
    quiet_panics();
    unsafe {
        let lim = libc::rlimit { rlim_cur: p.rlimit_as_bytes(), rlim_max: p.rlimit_as_bytes() };
        libc::setrlimit(libc::RLIMIT_AS, &lim);
    }
    cell.at(0).store(NONE, Ordering::SeqCst);
    // watchdog
    let timeout = p.timeout_s();
    let t0 = Instant::now();
    static STARTED_MS: AtomicU64 = AtomicU64::new(u64::MAX);
    std::thread::spawn(move || {
        loop {
            std::thread::sleep(Duration::from_millis(100));
            let s = STARTED_MS.load(Ordering::SeqCst);
            if s != u64::MAX {
                let now = t0.elapsed().as_millis() as u64;
                if now > s + timeout * 1000 {
                    unsafe { libc::_exit(97) };
                }
            }
        }
    });
    let out = std::io::stdout();
    let mut st = Stats::default();
    let mut last_flush = Instant::now();
    let mut run_one = |idx: u64, c: &P::Case, st: &mut Stats| {
        cell.at(0).store(idx, Ordering::SeqCst);
        STARTED_MS.store(t0.elapsed().as_millis() as u64, Ordering::SeqCst);
        // properties wrap the subject in `guarded` themselves; anything that still escapes is
        // reported (never silently lost) under its own signature
        let vs = match guarded(|| {
            let mut local = Stats::default();
            let vs = p.run(c, &mut local);
            (vs, local)
        }) {
            Ok((vs, local)) => {
                st.merge(&local);
                vs
            }
            Err(msg) => vec![Violation::new("uncaught-panic", format!("panic outside the guarded sections while running this case: {msg}"), p.case_json(c))],
        };
        STARTED_MS.store(u64::MAX, Ordering::SeqCst);
        cell.at(0).store(NONE, Ordering::SeqCst);
        st.inc("cases_run");
        if !vs.is_empty() {
            let mut o = out.lock();
            for v in vs {
                let _ = writeln!(o, "{}", json!({"t": "v", "idx": idx, "v": v.to_json()}));
            }
        }
        if last_flush.elapsed() > Duration::from_millis(700) {
            let _ = writeln!(out.lock(), "{}", json!({"t": "stats", "s": st.to_json()}));
            last_flush = Instant::now();
        }
    };
    if let Some(cf) = case_file {
        let v: Value = serde_json::from_str(&std::fs::read_to_string(cf).expect("case file")).expect("case json");
        let Some(c) = p.case_from_json(&v) else {
            eprintln!("cannot decode case");
            return 2;
        };
        run_one(0, &c, &mut st);
    } else {
        let mut idx: u64 = 0;
        p.enumerate(tier, &mut |c| {
            let i = idx;
            idx += 1;
            if i % n != id || i < skip_to {
                return;
            }
            if let Some(pr) = p.case_profile(c) {
                if pr != my_profile() {
                    return;
                }
            }
            run_one(i, c, &mut st);
        });
        st.add("enumerated", if id == 0 && my_profile() == p.profiles()[0] { idx } else { 0 });
    }
    let _ = writeln!(out.lock(), "{}", json!({"t": "stats", "s": st.to_json()}));
    let _ = writeln!(out.lock(), "{}", json!({"t": "done"}));
    0
}

pub struct PoolOut {
    pub stats: Stats,
    pub violations: Vec<Violation>,
    pub caps: Vec<String>,
}

struct Segment {
    child: std::process::Child,
    rx: std::sync::mpsc::Receiver<String>,
    stats: Stats,
    done: bool,
    cellpath: String,
    errpath: String,
}

fn spawn_segment(prop: &str, profile: &str, tier: Tier, id: usize, n: usize, skip_to: u64, case_file: Option<&str>) -> Segment {
    let exe = exe_for(profile);
    let dir = std::env::temp_dir().join(format!("mc-pool-{}", std::process::id()));
    let _ = std::fs::create_dir_all(&dir);
    let cellpath = dir.join(format!("cell-{prop}-{profile}-{id}")).display().to_string();
    let errpath = dir.join(format!("err-{prop}-{profile}-{id}")).display().to_string();
    let errf = std::fs::File::create(&errpath).expect("err file");
    let mut cmd = Command::new(exe);
    cmd.env("MC_PROFILE", profile);
    cmd.arg("worker").arg(prop).arg(tier.name()).arg(id.to_string()).arg(n.to_string()).arg(skip_to.to_string()).arg(&cellpath);
    if let Some(cf) = case_file {
        cmd.arg("--case-file").arg(cf);
    }
    let mut child = cmd.stdin(Stdio::null()).stdout(Stdio::piped()).stderr(errf).spawn().expect("spawn worker");
    let so = child.stdout.take().unwrap();
    let (tx, rx) = std::sync::mpsc::channel();
    std::thread::spawn(move || {
        // (bytes, not `lines()`: a subject that hands out an ill-formed `str` must not be able to
        //  cut the report channel)
        let mut rd = BufReader::new(so);
        let mut buf: Vec<u8> = vec![];
        loop {
            buf.clear();
            match rd.read_until(b'\n', &mut buf) {
                Ok(0) | Err(_) => break,
                Ok(_) => {
                    let l = String::from_utf8_lossy(&buf).trim_end().to_string();
                    if tx.send(l).is_err() {
                        break;
                    }
                }
            }
        }
    });
    Segment { child, rx, stats: Stats::default(), done: false, cellpath, errpath }
}

fn crash_kind(status: &std::process::ExitStatus, errpath: &str) -> String {
    use std::os::unix::process::ExitStatusExt;
    let err = std::fs::read_to_string(errpath).unwrap_or_default();
    let tail: String = err.chars().rev().take(2000).collect::<String>().chars().rev().collect();
    if status.code() == Some(97) {
        "timeout".into()
    } else if tail.contains("overflowed its stack") {
        "stack-overflow".into()
    } else if tail.contains("memory allocation of") {
        "out-of-memory".into()
    } else if let Some(sig) = status.signal() {
        format!("signal-{sig}")
    } else {
        format!("exit-{}", status.code().unwrap_or(-1))
    }
}

/// Parent side: run the whole enumeration (or one replayed case) in child processes.
pub fn parent<P: Pooled>(p: &P, tier: Tier, replay_case: Option<&Value>) -> PoolOut {
    let prop = p.prop();
    let n = if replay_case.is_some() { 1 } else { p.workers() };
    let dir = std::env::temp_dir().join(format!("mc-pool-{}", std::process::id()));
    let _ = std::fs::create_dir_all(&dir);
    let case_file = replay_case.map(|c| {
        let f = dir.join("case.json").display().to_string();
        std::fs::write(&f, c.to_string()).expect("write case file");
        f
    });
    let mut total = Stats::default();
    let mut violations: Vec<Violation> = vec![];
    let mut crashed: Vec<(u64, String)> = vec![];
    let mut caps = vec![];
    // one slice of n workers per profile; slot k runs slice id k % n with the binary of profile k / n
    let profiles: Vec<String> = match replay_case.and_then(|c| p.case_from_json(c)).map(|c| p.case_profile(&c)) {
        Some(Some(pr)) => vec![pr],
        Some(None) => vec![p.profiles()[0].to_string()],
        None => p.profiles().iter().map(|s| s.to_string()).collect(),
    };
    let slots = n * profiles.len();
    let mut segs: Vec<Option<Segment>> = (0..slots).map(|k| Some(spawn_segment(prop, &profiles[k / n], tier, k % n, n, 0, case_file.as_deref()))).collect();
    let max_crashes = 400;
    let mut engine_errors = 0;
    loop {
        let mut alive = 0;
        for id in 0..slots {
            let Some(seg) = segs[id].as_mut() else { continue };
            alive += 1;
            // drain messages
            while let Ok(line) = seg.rx.try_recv() {
                handle_line(&line, seg, &mut violations);
            }
            match seg.child.try_wait() {
                Ok(None) => {}
                Ok(Some(status)) => {
                    // drain the rest (reader thread ends at EOF)
                    let deadline = Instant::now() + Duration::from_millis(500);
                    loop {
                        match seg.rx.recv_timeout(Duration::from_millis(50)) {
                            Ok(line) => handle_line(&line, seg, &mut violations),
                            Err(std::sync::mpsc::RecvTimeoutError::Disconnected) => break,
                            Err(_) => {
                                if Instant::now() > deadline {
                                    break;
                                }
                            }
                        }
                    }
                    total.merge(&seg.stats);
                    if status.success() && seg.done {
                        segs[id] = None;
                    } else {
                        let cell = Cell::open(&seg.cellpath);
                        let idx = cell.at(0).load(Ordering::SeqCst);
                        let kind = crash_kind(&status, &seg.errpath);
                        if idx == NONE {
                            // died outside a case: engine error
                            engine_errors += 1;
                            eprintln!("worker {id} of {prop} died outside a case ({kind}); stderr tail: {}",
                                truncate(&std::fs::read_to_string(&seg.errpath).unwrap_or_default(), 2000));
                            segs[id] = None;
                            caps.push(format!("worker {id} died outside a case ({kind})"));
                        } else {
                            crashed.push((idx, kind));
                            if crashed.len() >= max_crashes || replay_case.is_some() {
                                if replay_case.is_none() {
                                    caps.push(format!("stopped after {max_crashes} crashed cases"));
                                }
                                segs[id] = None;
                            } else {
                                segs[id] = Some(spawn_segment(prop, &profiles[id / n], tier, id % n, n, idx + 1, None));
                            }
                        }
                    }
                }
                Err(e) => {
                    eprintln!("try_wait: {e}");
                    segs[id] = None;
                    engine_errors += 1;
                }
            }
        }
        if alive == 0 {
            break;
        }
        if crashed.len() >= max_crashes {
            for s in segs.iter_mut().flatten() {
                let _ = s.child.kill();
            }
        }
        std::thread::sleep(Duration::from_millis(20));
    }
    // describe crashed cases
    if !crashed.is_empty() {
        if let Some(c) = replay_case {
            if let Some(case) = p.case_from_json(c) {
                for (_, kind) in &crashed {
                    violations.push(Violation::new(p.crash_sig(&case, kind), format!("process died ({kind}) while running this case"), c.clone()));
                }
            }
        } else {
            crashed.sort();
            let mut idx = 0u64;
            let mut k = 0;
            p.enumerate(tier, &mut |c| {
                while k < crashed.len() && crashed[k].0 == idx {
                    let kind = &crashed[k].1;
                    violations.push(Violation::new(
                        p.crash_sig(c, kind),
                        format!("process died ({kind}) while running case #{idx}"),
                        p.case_json(c),
                    ));
                    k += 1;
                }
                idx += 1;
            });
        }
        total.add("crashed_cases", crashed.len() as u64);
    }
    if engine_errors > 0 {
        eprintln!("ENGINE ERROR: {engine_errors} worker(s) failed outside any case");
        let _ = std::fs::remove_dir_all(&dir);
        std::process::exit(2);
    }
    let _ = std::fs::remove_dir_all(&dir);
    PoolOut { stats: total, violations, caps }
}

fn handle_line(line: &str, seg: &mut Segment, violations: &mut Vec<Violation>) {
    let Ok(v) = serde_json::from_str::<Value>(line) else { return };
    match v.get("t").and_then(|t| t.as_str()) {
        Some("v") => {
            if let Some(vi) = v.get("v").and_then(Violation::from_json) {
                if violations.len() < 200_000 {
                    violations.push(vi);
                }
            }
        }
        Some("stats") => {
            if let Some(s) = v.get("s") {
                seg.stats = Stats::from_json(s);
            }
        }
        Some("done") => seg.done = true,
        _ => {}
    }
}
