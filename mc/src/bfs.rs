//! E1: explicit-state breadth-first search over operation histories.  A state is identified by a
//! canonical key; it is *rebuilt by replaying its history on a fresh real object* (live objects
//! are neither hashable nor safely clonable).
use crate::fw::*;
use rayon::prelude::*;
use std::collections::HashMap;

pub trait HistModel: Sync {
    /// the system under test together with its reference model
    type Sys;
    fn n_ops(&self) -> usize;
    fn op_name(&self, op: usize) -> String;
    fn fresh(&self) -> Self::Sys;
    /// apply `op` to both the real object and the reference; when `check` is set, compare what the
    /// operation returns and push disagreements to `out`. Returns false if the op is disabled here.
    fn apply(&self, sys: &mut Self::Sys, op: usize, check: bool, out: &mut Vec<(String, String)>) -> bool;
    /// canonical key of the state: must contain everything that can influence the future
    fn key(&self, sys: &Self::Sys) -> String;
    /// per-state checks (queries against the reference); returns (sig, detail) pairs and a number of comparisons
    fn battery(&self, sys: &Self::Sys, out: &mut Vec<(String, String)>) -> u64;
    fn history_json(&self, h: &[usize]) -> serde_json::Value {
        serde_json::json!(h.iter().map(|o| self.op_name(*o)).collect::<Vec<_>>())
    }
}

pub struct BfsOut {
    pub states: u64,
    pub transitions: u64,
    pub comparisons: u64,
    pub max_depth: usize,
    pub per_depth: Vec<u64>,
    pub violations: Vec<Violation>,
    pub sample_histories: Vec<Vec<usize>>,
}

pub fn replay<M: HistModel>(m: &M, h: &[usize]) -> M::Sys {
    let mut sys = m.fresh();
    let mut sink = vec![];
    for op in h {
        m.apply(&mut sys, *op, false, &mut sink);
    }
    sys
}

pub fn bfs<M: HistModel>(m: &M, depth: usize, max_states: u64) -> BfsOut {
    let mut seen: HashMap<String, ()> = HashMap::new();
    let mut out = BfsOut { states: 0, transitions: 0, comparisons: 0, max_depth: 0, per_depth: vec![], violations: vec![], sample_histories: vec![] };
    let init = m.fresh();
    seen.insert(m.key(&init), ());
    let mut v0 = vec![];
    out.comparisons += m.battery(&init, &mut v0);
    for (sig, detail) in v0 {
        out.violations.push(Violation::new(sig, detail, serde_json::json!({"history": []})));
    }
    out.states = 1;
    out.per_depth.push(1);
    let mut frontier: Vec<Vec<usize>> = vec![vec![]];
    let nops = m.n_ops();
    for d in 1..=depth {
        // expand every frontier state with every op, in parallel
        let results: Vec<Vec<(usize, String, Vec<(String, String)>, u64)>> = frontier
            .par_iter()
            .map(|h| {
                let mut res = vec![];
                for op in 0..nops {
                    // the subject may panic (debug assertions are on): a panic is a violation of
                    // the step that raised it, and the state is not explored further
                    let r = guarded(|| {
                        let mut sys = replay(m, h);
                        let mut vs = vec![];
                        if !m.apply(&mut sys, op, true, &mut vs) {
                            return None;
                        }
                        let key = m.key(&sys);
                        Some((key, vs))
                    });
                    match r {
                        Ok(None) => continue,
                        Ok(Some((key, vs))) => res.push((op, key, vs, 0u64)),
                        Err(p) => res.push((op, format!("\u{0}panic"), vec![(format!("{}:panic", m.op_name(op).split('(').next().unwrap_or("op")), format!("{} panicked: {p}", m.op_name(op)))], 1u64)),
                    }
                }
                res
            })
            .collect();
        let mut next: Vec<Vec<usize>> = vec![];
        for (h, res) in frontier.iter().zip(results) {
            for (op, key, vs, panicked) in res {
                out.transitions += 1;
                let mut hh = h.clone();
                hh.push(op);
                for (sig, detail) in vs {
                    if out.violations.len() < 100_000 {
                        out.violations.push(Violation::new(sig, detail, serde_json::json!({"history": m.history_json(&hh)})));
                    }
                }
                if panicked == 1 {
                    continue;
                }
                if !seen.contains_key(&key) {
                    seen.insert(key, ());
                    next.push(hh);
                }
            }
        }
        // batteries on the new states
        let bres: Vec<(u64, Vec<(String, String)>)> = next
            .par_iter()
            .map(|h| {
                match guarded(|| {
                    let sys = replay(m, h);
                    let mut vs = vec![];
                    let n = m.battery(&sys, &mut vs);
                    (n, vs)
                }) {
                    Ok(r) => r,
                    Err(p) => (1, vec![("query:panic".to_string(), format!("a query of the per-state battery panicked: {p}"))]),
                }
            })
            .collect();
        for (h, (n, vs)) in next.iter().zip(bres) {
            out.comparisons += n;
            for (sig, detail) in vs {
                if out.violations.len() < 100_000 {
                    out.violations.push(Violation::new(sig, detail, serde_json::json!({"history": m.history_json(h)})));
                }
            }
        }
        out.states += next.len() as u64;
        out.per_depth.push(next.len() as u64);
        if !next.is_empty() {
            out.max_depth = d;
            if out.sample_histories.len() < 4 {
                out.sample_histories.push(next[next.len() / 2].clone());
            }
        }
        frontier = next;
        if frontier.is_empty() || out.states >= max_states {
            break;
        }
    }
    out
}

/// Self-test of the explorer: the "subsets of n items" model must have exactly 2^n states and
/// n*2^n transitions, and a planted bad state must be found with a shortest history.
pub struct SubsetModel {
    pub n: usize,
    pub bad: Option<u32>,
}
impl HistModel for SubsetModel {
    type Sys = u32;
    fn n_ops(&self) -> usize {
        self.n
    }
    fn op_name(&self, op: usize) -> String {
        format!("toggle{op}")
    }
    fn fresh(&self) -> u32 {
        0
    }
    fn apply(&self, sys: &mut u32, op: usize, _check: bool, _out: &mut Vec<(String, String)>) -> bool {
        *sys ^= 1 << op;
        true
    }
    fn key(&self, sys: &u32) -> String {
        format!("{sys}")
    }
    fn battery(&self, sys: &u32, out: &mut Vec<(String, String)>) -> u64 {
        if Some(*sys) == self.bad {
            out.push(("bad".into(), format!("{sys}")));
        }
        1
    }
}
pub fn self_test() -> Result<(), String> {
    let m = SubsetModel { n: 6, bad: None };
    let o = bfs(&m, 10, u64::MAX);
    if o.states != 64 || o.transitions != 6 * 64 {
        return Err(format!("subset model: {} states, {} transitions", o.states, o.transitions));
    }
    let m = SubsetModel { n: 6, bad: Some(0b101001) };
    let o = bfs(&m, 10, u64::MAX);
    if o.violations.len() != 1 {
        return Err(format!("planted bad state reported {} times", o.violations.len()));
    }
    let h = o.violations[0].case["history"].as_array().map(|a| a.len()).unwrap_or(99);
    if h != 3 {
        return Err(format!("planted bad state found with history length {h}, expected 3"));
    }
    Ok(())
}
