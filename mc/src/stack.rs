//! Stack high-water measurement: the closure is run on a fresh thread of a given stack size whose
//! unused stack has been painted; afterwards the deepest overwritten word gives the maximal stack
//! depth reached, without having to crash the process to learn about growth.
use std::sync::atomic::{AtomicUsize, Ordering};

const PATTERN: u64 = 0xA5C3_5A3C_A5C3_5A3C;

fn stack_bounds() -> (usize, usize) {
    // (lowest usable address, top)
    unsafe {
        let mut attr: libc::pthread_attr_t = std::mem::zeroed();
        assert_eq!(libc::pthread_getattr_np(libc::pthread_self(), &mut attr), 0);
        let mut addr: *mut libc::c_void = std::ptr::null_mut();
        let mut size: libc::size_t = 0;
        assert_eq!(libc::pthread_attr_getstack(&attr, &mut addr, &mut size), 0);
        let mut guard: libc::size_t = 0;
        assert_eq!(libc::pthread_attr_getguardsize(&attr, &mut guard), 0);
        libc::pthread_attr_destroy(&mut attr);
        let low = addr as usize + guard + 4096;
        (low, addr as usize + size)
    }
}

#[inline(never)]
fn paint(low: usize) -> usize {
    let marker = 0u64;
    let here = &marker as *const u64 as usize;
    let hi = (here - 1024) & !7;
    let mut a = low & !7;
    while a < hi {
        unsafe { std::ptr::write_volatile(a as *mut u64, PATTERN) };
        a += 8;
    }
    hi
}

#[inline(never)]
fn scan(low: usize, hi: usize) -> usize {
    let mut a = low & !7;
    while a < hi {
        if unsafe { std::ptr::read_volatile(a as *const u64) } != PATTERN {
            return a;
        }
        a += 8;
    }
    hi
}

/// Runs `f` on a thread with `stack_bytes` of stack; returns its result and the number of bytes of
/// stack used below the frame of the caller of `f` (high-water mark).
pub fn measure<R: Send>(stack_bytes: usize, f: impl FnOnce() -> R + Send) -> (R, usize) {
    let used = AtomicUsize::new(0);
    let r = std::thread::scope(|sc| {
        std::thread::Builder::new()
            .stack_size(stack_bytes)
            .spawn_scoped(sc, || {
                let (low, _top) = stack_bounds();
                let hi = paint(low);
                let r = f();
                let first_dirty = scan(low, hi);
                used.store(hi - first_dirty, Ordering::SeqCst);
                r
            })
            .expect("spawn measuring thread")
            .join()
    });
    match r {
        Ok(r) => (r, used.load(Ordering::SeqCst)),
        Err(e) => std::panic::resume_unwind(e),
    }
}
