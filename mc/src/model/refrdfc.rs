//! Independent reference implementation of RDFC-1.0 (written from the W3C Recommendation text).
use sha2::{Digest, Sha256, Sha384};
use std::collections::{BTreeMap, BTreeSet, HashMap};

#[derive(Clone, Debug, PartialEq, Eq, Hash, PartialOrd, Ord)]
pub enum T {
    Iri(String),
    B(String),
    Lit(String, String, Option<String>), // lex, datatype, lang
}
pub type Q = (T, T, T, Option<T>);

use super::terms::{AQuad, ATerm};
pub fn t_of(a: &ATerm) -> Option<T> {
    match a {
        ATerm::Iri(i) => Some(T::Iri(i.clone())),
        ATerm::Bnode(b) => Some(T::B(b.clone())),
        ATerm::Lit(dt, lang, lex) => Some(T::Lit(lex.clone(), dt.clone(), lang.clone())),
        _ => None,
    }
}
/// None if the quad is outside the supported domain (blank predicate, quoted triple, variable)
pub fn q_of(q: &AQuad) -> Option<Q> {
    if !matches!(q.0[1], ATerm::Iri(_)) {
        return None;
    }
    Some((t_of(&q.0[0])?, t_of(&q.0[1])?, t_of(&q.0[2])?, match &q.1 { None => None, Some(g) => Some(t_of(g)?) }))
}

pub trait H: 'static { fn h(data: &[u8]) -> String; }
pub struct S256; pub struct S384;
fn hex(b: &[u8]) -> String { b.iter().map(|x| format!("{x:02x}")).collect() }
impl H for S256 { fn h(d: &[u8]) -> String { hex(&Sha256::digest(d)) } }
impl H for S384 { fn h(d: &[u8]) -> String { hex(&Sha384::digest(d)) } }

pub const XSD_STRING: &str = "http://www.w3.org/2001/XMLSchema#string";

pub fn nq_term(t: &T, out: &mut String) {
    match t {
        T::Iri(i) => { out.push('<'); out.push_str(i); out.push('>'); }
        T::B(b) => { out.push_str("_:"); out.push_str(b); }
        T::Lit(lex, dt, lang) => {
            out.push('"');
            for c in lex.chars() {
                match c {
                    '\u{8}' => out.push_str("\\b"), '\t' => out.push_str("\\t"), '\n' => out.push_str("\\n"),
                    '\u{c}' => out.push_str("\\f"), '\r' => out.push_str("\\r"), '"' => out.push_str("\\\""), '\\' => out.push_str("\\\\"),
                    '\u{0}'..='\u{7}' | '\u{b}' | '\u{e}'..='\u{1f}' | '\u{7f}' | '\u{fffe}' | '\u{ffff}' => out.push_str(&format!("\\u{:04X}", c as u32)),
                    _ => out.push(c),
                }
            }
            out.push('"');
            if let Some(l) = lang { out.push('@'); out.push_str(l); }
            else if dt != XSD_STRING { out.push_str("^^<"); out.push_str(dt); out.push('>'); }
        }
    }
}
pub fn nq_quad(q: &Q, map: &dyn Fn(&str) -> String) -> String {
    let mut s = String::new();
    let m = |t: &T| -> T { if let T::B(b) = t { T::B(map(b)) } else { t.clone() } };
    nq_term(&m(&q.0), &mut s); s.push(' ');
    nq_term(&m(&q.1), &mut s); s.push(' ');
    nq_term(&m(&q.2), &mut s); s.push(' ');
    if let Some(g) = &q.3 { nq_term(&m(g), &mut s); s.push(' '); }
    s.push_str(".\n");
    s
}

#[derive(Clone, Debug)]
pub struct Issuer { prefix: &'static str, pub issued: Vec<(String, String)> }
impl Issuer {
    fn new(prefix: &'static str) -> Self { Issuer { prefix, issued: vec![] } }
    fn get(&self, id: &str) -> Option<&str> { self.issued.iter().find(|(k, _)| k == id).map(|(_, v)| v.as_str()) }
    fn issue(&mut self, id: &str) -> String {
        if let Some(v) = self.get(id) { return v.to_string(); }
        let v = format!("{}{}", self.prefix, self.issued.len());
        self.issued.push((id.to_string(), v.clone()));
        v
    }
}

pub struct State<'a> {
    b2q: BTreeMap<String, Vec<&'a Q>>,
    h1: HashMap<String, String>,
    canon: Issuer,
    pub calls: usize,
    pub dedup_quads: bool,
    pub skip_issued: bool,
    /// deepest recursion of Hash N-Degree Quads (0 = top-level call)
    pub max_depth: usize,
    /// largest list of related blank nodes that was permuted
    pub max_group: usize,
}

fn bnodes_of(q: &Q) -> Vec<(&str, &'static str)> {
    let mut v = vec![];
    if let T::B(b) = &q.0 { v.push((b.as_str(), "s")); }
    if let T::B(b) = &q.2 { v.push((b.as_str(), "o")); }
    if let Some(T::B(b)) = &q.3 { v.push((b.as_str(), "g")); }
    v
}

impl<'a> State<'a> {
    fn hash_first_degree<HH: H>(&self, id: &str) -> String {
        let mut lines: Vec<String> = self.b2q[id].iter().map(|q| nq_quad(q, &|b| if b == id { "a".into() } else { "z".into() })).collect();
        lines.sort();
        HH::h(lines.concat().as_bytes())
    }
    fn hash_related<HH: H>(&self, related: &str, q: &Q, issuer: &Issuer, pos: &str) -> String {
        let mut input = String::from(pos);
        if pos != "g" { if let T::Iri(p) = &q.1 { input.push('<'); input.push_str(p); input.push('>'); } else { panic!("non-IRI predicate") } }
        if let Some(c) = self.canon.get(related) { input.push_str("_:"); input.push_str(c); }
        else if let Some(c) = issuer.get(related) { input.push_str("_:"); input.push_str(c); }
        else { input.push_str(&self.h1[related]); }
        HH::h(input.as_bytes())
    }
    fn hash_n_degree<HH: H>(&mut self, id: &str, issuer: &Issuer, depth: usize) -> (String, Issuer) {
        self.calls += 1;
        self.max_depth = self.max_depth.max(depth);
        if self.calls > 2_000_000 { panic!("reference: too many calls"); }
        let mut issuer = issuer.clone();
        let mut hn: BTreeMap<String, Vec<String>> = BTreeMap::new();
        let quads = self.b2q[id].clone();
        for q in quads {
            for (b, pos) in bnodes_of(q) {
                if b == id { continue; }
                let h = self.hash_related::<HH>(b, q, &issuer, pos);
                hn.entry(h).or_default().push(b.to_string());
            }
        }
        let mut data = String::new();
        for (rh, list) in hn {
            self.max_group = self.max_group.max(list.len());
            data.push_str(&rh);
            let mut chosen_path = String::new();
            let mut chosen_issuer: Option<Issuer> = None;
            let mut perm: Vec<usize> = (0..list.len()).collect();
            // iterate over all permutations in lexicographic index order
            'perms: loop {
                let mut ic = issuer.clone();
                let mut path = String::new();
                let mut rec: Vec<String> = vec![];
                let mut skip = false;
                for &i in &perm {
                    let related = &list[i];
                    if let Some(c) = self.canon.get(related) { path.push_str("_:"); path.push_str(c); }
                    else {
                        if ic.get(related).is_none() { rec.push(related.clone()); }
                        let v = ic.issue(related);
                        path.push_str("_:"); path.push_str(&v);
                    }
                    if !chosen_path.is_empty() && path.len() >= chosen_path.len() && path > chosen_path { skip = true; break; }
                }
                if !skip {
                    for related in &rec {
                        let (h, iss) = self.hash_n_degree::<HH>(related, &ic, depth + 1);
                        let v = ic.issue(related);
                        path.push_str("_:"); path.push_str(&v);
                        path.push('<'); path.push_str(&h); path.push('>');
                        ic = iss;
                        if !chosen_path.is_empty() && path.len() >= chosen_path.len() && path > chosen_path { skip = true; break; }
                    }
                }
                if !skip && (chosen_path.is_empty() || path < chosen_path) { chosen_path = path; chosen_issuer = Some(ic); }
                // next permutation
                let n = perm.len();
                if n < 2 { break 'perms; }
                let mut i = n - 1;
                while i > 0 && perm[i - 1] >= perm[i] { i -= 1; }
                if i == 0 { break 'perms; }
                let mut j = n - 1;
                while perm[j] <= perm[i - 1] { j -= 1; }
                perm.swap(i - 1, j);
                perm[i..].reverse();
            }
            data.push_str(&chosen_path);
            issuer = chosen_issuer.unwrap();
        }
        (HH::h(data.as_bytes()), issuer)
    }
}

pub struct Canon {
    pub doc: String,
    /// (input label, canonical label) in issue order
    pub issued: Vec<(String, String)>,
    pub max_depth: usize,
    pub max_group: usize,
    pub nbnodes: usize,
}

/// returns the canonical n-quads document, the issued map in issue order and the recursion counters
pub fn canonicalize<HH: H>(quads: &[Q], dedup_quads: bool, skip_issued: bool) -> Canon {
    let set: BTreeSet<&Q> = quads.iter().collect();
    let mut st = State { b2q: BTreeMap::new(), h1: HashMap::new(), canon: Issuer::new("c14n"), calls: 0, dedup_quads, skip_issued, max_depth: 0, max_group: 0 };
    for q in &set {
        let mut seen: Vec<&str> = vec![];
        for (b, _) in bnodes_of(q) {
            if dedup_quads && seen.contains(&b) { continue; }
            seen.push(b);
            st.b2q.entry(b.to_string()).or_default().push(q);
        }
    }
    let mut h2b: BTreeMap<String, Vec<String>> = BTreeMap::new();
    let ids: Vec<String> = st.b2q.keys().cloned().collect();
    for id in &ids {
        let h = st.hash_first_degree::<HH>(id);
        st.h1.insert(id.clone(), h.clone());
        h2b.entry(h).or_default().push(id.clone());
    }
    let mut rest: BTreeMap<String, Vec<String>> = BTreeMap::new();
    for (h, l) in h2b { if l.len() == 1 { st.canon.issue(&l[0]); } else { rest.insert(h, l); } }
    for (_h, l) in rest {
        let mut hpl: Vec<(String, Issuer)> = vec![];
        for n in &l {
            if skip_issued && st.canon.get(n).is_some() { continue; }
            let mut ti = Issuer::new("b");
            ti.issue(n);
            hpl.push(st.hash_n_degree::<HH>(n, &ti, 0));
        }
        hpl.sort_by(|a, b| a.0.cmp(&b.0));
        for (_, iss) in hpl { for (existing, _) in &iss.issued { st.canon.issue(existing); } }
    }
    let canon = st.canon.clone();
    let mut lines: Vec<String> = set.iter().map(|q| nq_quad(q, &|b| canon.get(b).unwrap().to_string())).collect();
    lines.sort();
    lines.dedup();
    Canon { doc: lines.concat(), issued: canon.issued, max_depth: st.max_depth, max_group: st.max_group, nbnodes: st.b2q.len() }
}
