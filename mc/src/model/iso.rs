//! Brute-force isomorphism of generalized datasets (as sets of quads): tries every bijection of
//! blank node labels, wherever they occur (quoted triples, graph names). Independent of
//! sophia_isomorphism and sophia_c14n.
use super::terms::*;
use crate::fw::next_perm;
use std::collections::{BTreeMap, BTreeSet};

/// Language tags are compared case-insensitively when `fold_lang` is true.
pub fn iso_with(d1: &[AQuad], d2: &[AQuad], fold_lang: bool) -> bool {
    let norm = |q: &AQuad| if fold_lang { quad_key(q) } else { q.clone() };
    let s1: BTreeSet<AQuad> = d1.iter().map(norm).collect();
    let s2: BTreeSet<AQuad> = d2.iter().map(norm).collect();
    if s1.len() != s2.len() {
        return false;
    }
    let v1: Vec<AQuad> = s1.iter().cloned().collect();
    let v2: Vec<AQuad> = s2.iter().cloned().collect();
    let b1 = quad_bnodes(&v1);
    let b2 = quad_bnodes(&v2);
    if b1.len() != b2.len() {
        return false;
    }
    if b1.is_empty() {
        return s1 == s2;
    }
    let n = b1.len();
    assert!(n <= 9, "brute-force iso limited to 9 blank nodes");
    let m2: BTreeMap<&str, String> = (0..n).map(|i| (b2[i].as_str(), format!("\u{1}{i}"))).collect();
    let r2: BTreeSet<AQuad> = v2.iter().map(|q| quad_rename(q, &|b| m2[b].clone())).collect();
    let mut perm: Vec<usize> = (0..n).collect();
    loop {
        let m1: BTreeMap<&str, String> = (0..n).map(|i| (b1[i].as_str(), format!("\u{1}{}", perm[i]))).collect();
        let r1: BTreeSet<AQuad> = v1.iter().map(|q| quad_rename(q, &|b| m1[b].clone())).collect();
        if r1 == r2 {
            return true;
        }
        if !next_perm(&mut perm) {
            return false;
        }
    }
}
pub fn iso(d1: &[AQuad], d2: &[AQuad]) -> bool {
    iso_with(d1, d2, true)
}
