//! Abstract terms: the "boring" reference representation, with derived structural equality.
use sophia_api::term::{BnodeId, IriRef, LanguageTag, SimpleTerm, Term, TermKind, VarName};

pub const XSD: &str = "http://www.w3.org/2001/XMLSchema#";
pub const RDF: &str = "http://www.w3.org/1999/02/22-rdf-syntax-ns#";
pub const XSD_STRING: &str = "http://www.w3.org/2001/XMLSchema#string";
pub const RDF_LANGSTRING: &str = "http://www.w3.org/1999/02/22-rdf-syntax-ns#langString";

/// Variant order = the kind order required by the property (bnode < iri < literal < triple < variable).
#[derive(Clone, Debug, PartialEq, Eq, PartialOrd, Ord, Hash)]
pub enum ATerm {
    Bnode(String),
    Iri(String),
    /// datatype, language tag (original case), lexical form
    Lit(String, Option<String>, String),
    Triple(Box<[ATerm; 3]>),
    Var(String),
}

pub type AQuad = ([ATerm; 3], Option<ATerm>);

impl ATerm {
    pub fn iri(s: &str) -> ATerm {
        ATerm::Iri(s.to_string())
    }
    pub fn b(s: &str) -> ATerm {
        ATerm::Bnode(s.to_string())
    }
    pub fn var(s: &str) -> ATerm {
        ATerm::Var(s.to_string())
    }
    pub fn lit(lex: &str) -> ATerm {
        ATerm::Lit(XSD_STRING.to_string(), None, lex.to_string())
    }
    pub fn typed(lex: &str, dt: &str) -> ATerm {
        ATerm::Lit(dt.to_string(), None, lex.to_string())
    }
    pub fn lang(lex: &str, tag: &str) -> ATerm {
        ATerm::Lit(RDF_LANGSTRING.to_string(), Some(tag.to_string()), lex.to_string())
    }
    pub fn triple(s: ATerm, p: ATerm, o: ATerm) -> ATerm {
        ATerm::Triple(Box::new([s, p, o]))
    }
    pub fn rank(&self) -> u8 {
        match self {
            ATerm::Bnode(_) => 0,
            ATerm::Iri(_) => 1,
            ATerm::Lit(..) => 2,
            ATerm::Triple(_) => 3,
            ATerm::Var(_) => 4,
        }
    }
    /// Normalised key: language tags folded to lower case (RDF term equality).
    pub fn key(&self) -> ATerm {
        match self {
            ATerm::Lit(dt, Some(l), lex) => ATerm::Lit(dt.clone(), Some(l.to_ascii_lowercase()), lex.clone()),
            ATerm::Triple(t) => ATerm::Triple(Box::new([t[0].key(), t[1].key(), t[2].key()])),
            other => other.clone(),
        }
    }
    pub fn same_term(&self, other: &ATerm) -> bool {
        self.key() == other.key()
    }
    pub fn is_ground(&self) -> bool {
        match self {
            ATerm::Bnode(_) | ATerm::Var(_) => false,
            ATerm::Triple(t) => t.iter().all(|x| x.is_ground()),
            _ => true,
        }
    }
    pub fn depth(&self) -> usize {
        match self {
            ATerm::Triple(t) => 1 + t.iter().map(|x| x.depth()).max().unwrap_or(0),
            _ => 0,
        }
    }
    pub fn bnodes(&self, out: &mut Vec<String>) {
        match self {
            ATerm::Bnode(b) => {
                if !out.contains(b) {
                    out.push(b.clone())
                }
            }
            ATerm::Triple(t) => t.iter().for_each(|x| x.bnodes(out)),
            _ => {}
        }
    }
    pub fn rename(&self, f: &dyn Fn(&str) -> String) -> ATerm {
        match self {
            ATerm::Bnode(b) => ATerm::Bnode(f(b)),
            ATerm::Triple(t) => ATerm::Triple(Box::new([t[0].rename(f), t[1].rename(f), t[2].rename(f)])),
            other => other.clone(),
        }
    }

    /// Read any sophia term through the accessor methods of the `Term` trait only.
    pub fn from_term<T: Term>(t: T) -> ATerm {
        match t.kind() {
            TermKind::Iri => ATerm::Iri(t.iri().expect("iri()").as_str().to_string()),
            TermKind::BlankNode => ATerm::Bnode(t.bnode_id().expect("bnode_id()").as_str().to_string()),
            TermKind::Literal => {
                let lex = t.lexical_form().expect("lexical_form()").to_string();
                let dt = t.datatype().expect("datatype()").as_str().to_string();
                let lang = t.language_tag().map(|l| l.as_str().to_string());
                ATerm::Lit(dt, lang, lex)
            }
            TermKind::Triple => {
                let [s, p, o] = t.triple().expect("triple()");
                ATerm::Triple(Box::new([ATerm::from_term(s), ATerm::from_term(p), ATerm::from_term(o)]))
            }
            TermKind::Variable => ATerm::Var(t.variable().expect("variable()").as_str().to_string()),
        }
    }

    /// Convert to an owned `SimpleTerm` *without* validation (release) – the value is built from
    /// the raw strings so that the harness can also carry values the validators would reject.
    pub fn to_simple(&self) -> SimpleTerm<'static> {
        match self {
            ATerm::Iri(i) => SimpleTerm::Iri(IriRef::new_unchecked(i.clone().into())),
            ATerm::Bnode(b) => SimpleTerm::BlankNode(BnodeId::new_unchecked(b.clone().into())),
            ATerm::Lit(_, Some(tag), lex) => {
                SimpleTerm::LiteralLanguage(lex.clone().into(), LanguageTag::new_unchecked(tag.clone().into()))
            }
            ATerm::Lit(dt, None, lex) => {
                SimpleTerm::LiteralDatatype(lex.clone().into(), IriRef::new_unchecked(dt.clone().into()))
            }
            ATerm::Triple(t) => SimpleTerm::Triple(Box::new([t[0].to_simple(), t[1].to_simple(), t[2].to_simple()])),
            ATerm::Var(v) => SimpleTerm::Variable(VarName::new_unchecked(v.clone().into())),
        }
    }

    /// N-Quads-like rendering (own escaping: everything outside printable ASCII is \u-escaped),
    /// variables as `?name`. Used for replay files and messages; readable by `refnq`.
    pub fn nq(&self) -> String {
        let mut s = String::new();
        self.write_nq(&mut s);
        s
    }
    pub fn write_nq(&self, out: &mut String) {
        match self {
            ATerm::Iri(i) => {
                out.push('<');
                for c in i.chars() {
                    if (c as u32) <= 0x20 || "<>\"{}|^`\\".contains(c) || (c as u32) >= 0x7f {
                        esc_u(c, out)
                    } else {
                        out.push(c)
                    }
                }
                out.push('>');
            }
            ATerm::Bnode(b) => {
                out.push_str("_:");
                out.push_str(b);
            }
            ATerm::Var(v) => {
                out.push('?');
                out.push_str(v);
            }
            ATerm::Lit(dt, lang, lex) => {
                out.push('"');
                for c in lex.chars() {
                    match c {
                        '"' => out.push_str("\\\""),
                        '\\' => out.push_str("\\\\"),
                        '\n' => out.push_str("\\n"),
                        '\r' => out.push_str("\\r"),
                        '\t' => out.push_str("\\t"),
                        c if (c as u32) < 0x20 || (c as u32) >= 0x7f => esc_u(c, out),
                        c => out.push(c),
                    }
                }
                out.push('"');
                if let Some(l) = lang {
                    out.push('@');
                    out.push_str(l);
                } else if dt != XSD_STRING {
                    out.push_str("^^");
                    ATerm::Iri(dt.clone()).write_nq(out);
                }
            }
            ATerm::Triple(t) => {
                out.push_str("<< ");
                for x in t.iter() {
                    x.write_nq(out);
                    out.push(' ');
                }
                out.push_str(">>");
            }
        }
    }
}

fn esc_u(c: char, out: &mut String) {
    let cp = c as u32;
    if cp <= 0xFFFF {
        out.push_str(&format!("\\u{cp:04X}"));
    } else {
        out.push_str(&format!("\\U{cp:08X}"));
    }
}

pub fn quad_nq(q: &AQuad) -> String {
    let mut s = String::new();
    for t in &q.0 {
        t.write_nq(&mut s);
        s.push(' ');
    }
    if let Some(g) = &q.1 {
        g.write_nq(&mut s);
        s.push(' ');
    }
    s.push('.');
    s
}
pub fn quads_nq(d: &[AQuad]) -> Vec<String> {
    d.iter().map(quad_nq).collect()
}
pub fn quad_key(q: &AQuad) -> AQuad {
    ([q.0[0].key(), q.0[1].key(), q.0[2].key()], q.1.as_ref().map(|g| g.key()))
}
pub fn quad_bnodes(d: &[AQuad]) -> Vec<String> {
    let mut v = vec![];
    for q in d {
        for t in &q.0 {
            t.bnodes(&mut v);
        }
        if let Some(g) = &q.1 {
            g.bnodes(&mut v);
        }
    }
    v
}
pub fn quad_rename(q: &AQuad, f: &dyn Fn(&str) -> String) -> AQuad {
    ([q.0[0].rename(f), q.0[1].rename(f), q.0[2].rename(f)], q.1.as_ref().map(|g| g.rename(f)))
}

pub type SQuad = ([SimpleTerm<'static>; 3], Option<SimpleTerm<'static>>);
pub fn to_squad(q: &AQuad) -> SQuad {
    ([q.0[0].to_simple(), q.0[1].to_simple(), q.0[2].to_simple()], q.1.as_ref().map(|g| g.to_simple()))
}
pub fn from_quad<Q: sophia_api::quad::Quad>(q: &Q) -> AQuad {
    ([ATerm::from_term(q.s()), ATerm::from_term(q.p()), ATerm::from_term(q.o())], q.g().map(ATerm::from_term))
}
pub fn from_triple<T: sophia_api::triple::Triple>(t: &T) -> [ATerm; 3] {
    [ATerm::from_term(t.s()), ATerm::from_term(t.p()), ATerm::from_term(t.o())]
}
