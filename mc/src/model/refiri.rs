//! Reference for IRIs: (1) the RFC 3987 grammar transcribed production by production into regex
//! fragments (compiled to a DFA by the caller), (2) RFC 3986 section 5.2 reference resolution.

pub struct Abnf {
    pub iri: String,
    pub irelative_ref: String,
}

/// RFC 3987 section 2.2, production by production.
pub fn abnf() -> Abnf {
    let alpha = "[A-Za-z]";
    let digit = "[0-9]";
    let hexdig = "[0-9A-Fa-f]";
    let ucschar = r"[\u{A0}-\u{D7FF}\u{F900}-\u{FDCF}\u{FDF0}-\u{FFEF}\u{10000}-\u{1FFFD}\u{20000}-\u{2FFFD}\u{30000}-\u{3FFFD}\u{40000}-\u{4FFFD}\u{50000}-\u{5FFFD}\u{60000}-\u{6FFFD}\u{70000}-\u{7FFFD}\u{80000}-\u{8FFFD}\u{90000}-\u{9FFFD}\u{A0000}-\u{AFFFD}\u{B0000}-\u{BFFFD}\u{C0000}-\u{CFFFD}\u{D0000}-\u{DFFFD}\u{E1000}-\u{EFFFD}]";
    let iprivate = r"[\u{E000}-\u{F8FF}\u{F0000}-\u{FFFFD}\u{100000}-\u{10FFFD}]";
    let unreserved_ascii = r"[A-Za-z0-9\-._~]";
    let iunreserved = format!("(?:{unreserved_ascii}|{ucschar})");
    let pct = format!("(?:%{hexdig}{hexdig})");
    let sub_delims = r"[!$&'()*+,;=]";
    let ipchar = format!("(?:{iunreserved}|{pct}|{sub_delims}|[:@])");
    let scheme = format!(r"(?:{alpha}(?:{alpha}|{digit}|[+\-.])*)");
    let iuserinfo = format!("(?:{iunreserved}|{pct}|{sub_delims}|:)*");
    let dec_octet = "(?:25[0-5]|2[0-4][0-9]|1[0-9][0-9]|[1-9][0-9]|[0-9])";
    let ipv4 = format!(r"(?:{dec_octet}\.{dec_octet}\.{dec_octet}\.{dec_octet})");
    let h16 = format!("(?:{hexdig}{{1,4}})");
    let ls32 = format!("(?:{h16}:{h16}|{ipv4})");
    let ipv6 = format!(
        "(?:(?:{h16}:){{6}}{ls32}|::(?:{h16}:){{5}}{ls32}|(?:{h16})?::(?:{h16}:){{4}}{ls32}|(?:(?:{h16}:){{0,1}}{h16})?::(?:{h16}:){{3}}{ls32}|(?:(?:{h16}:){{0,2}}{h16})?::(?:{h16}:){{2}}{ls32}|(?:(?:{h16}:){{0,3}}{h16})?::{h16}:{ls32}|(?:(?:{h16}:){{0,4}}{h16})?::{ls32}|(?:(?:{h16}:){{0,5}}{h16})?::{h16}|(?:(?:{h16}:){{0,6}}{h16})?::)"
    );
    let ipvfuture = format!(r"(?:v{hexdig}+\.(?:{unreserved_ascii}|{sub_delims}|:)+)");
    let ip_literal = format!(r"(?:\[(?:{ipv6}|{ipvfuture})\])");
    let ireg_name = format!("(?:{iunreserved}|{pct}|{sub_delims})*");
    let ihost = format!("(?:{ip_literal}|{ipv4}|{ireg_name})");
    let port = format!("{digit}*");
    let iauthority = format!("(?:(?:{iuserinfo}@)?{ihost}(?::{port})?)");
    let isegment = format!("{ipchar}*");
    let isegment_nz = format!("{ipchar}+");
    let isegment_nz_nc = format!("(?:{iunreserved}|{pct}|{sub_delims}|@)+");
    let ipath_abempty = format!("(?:/{isegment})*");
    let ipath_absolute = format!("(?:/(?:{isegment_nz}(?:/{isegment})*)?)");
    let ipath_noscheme = format!("(?:{isegment_nz_nc}(?:/{isegment})*)");
    let ipath_rootless = format!("(?:{isegment_nz}(?:/{isegment})*)");
    let iquery = format!("(?:{ipchar}|{iprivate}|[/?])*");
    let ifragment = format!("(?:{ipchar}|[/?])*");
    let ihier_part = format!("(?://{iauthority}{ipath_abempty}|{ipath_absolute}|{ipath_rootless}|)");
    let irelative_part = format!("(?://{iauthority}{ipath_abempty}|{ipath_absolute}|{ipath_noscheme}|)");
    Abnf {
        iri: format!(r"^{scheme}:{ihier_part}(?:\?{iquery})?(?:\#{ifragment})?$"),
        irelative_ref: format!(r"^{irelative_part}(?:\?{iquery})?(?:\#{ifragment})?$"),
    }
}

// ---------------------------------------------------------------------------------------------
// RFC 3986 section 5.2

#[derive(Clone, Debug, PartialEq, Eq, Default)]
pub struct Parts {
    pub scheme: Option<String>,
    pub authority: Option<String>,
    pub path: String,
    pub query: Option<String>,
    pub fragment: Option<String>,
}

/// Appendix B: ^(([^:/?#]+):)?(//([^/?#]*))?([^?#]*)(\?([^#]*))?(#(.*))?
pub fn split(s: &str) -> Parts {
    let mut p = Parts::default();
    let mut rest = s;
    // scheme
    if let Some(i) = rest.find([':', '/', '?', '#']) {
        if i > 0 && rest.as_bytes()[i] == b':' {
            p.scheme = Some(rest[..i].to_string());
            rest = &rest[i + 1..];
        }
    }
    if let Some(r) = rest.strip_prefix("//") {
        let end = r.find(['/', '?', '#']).unwrap_or(r.len());
        p.authority = Some(r[..end].to_string());
        rest = &r[end..];
    }
    let end = rest.find(['?', '#']).unwrap_or(rest.len());
    p.path = rest[..end].to_string();
    rest = &rest[end..];
    if let Some(r) = rest.strip_prefix('?') {
        let end = r.find('#').unwrap_or(r.len());
        p.query = Some(r[..end].to_string());
        rest = &r[end..];
    }
    if let Some(r) = rest.strip_prefix('#') {
        p.fragment = Some(r.to_string());
    }
    p
}

/// 5.2.4
pub fn remove_dot_segments(path: &str) -> String {
    let mut input = path.to_string();
    let mut output = String::new();
    while !input.is_empty() {
        if input.starts_with("../") {
            input.drain(..3);
        } else if input.starts_with("./") {
            input.drain(..2);
        } else if input.starts_with("/./") {
            input.replace_range(..3, "/");
        } else if input == "/." {
            input = "/".to_string();
        } else if input.starts_with("/../") {
            input.replace_range(..4, "/");
            if let Some(i) = output.rfind('/') {
                output.truncate(i);
            } else {
                output.clear();
            }
        } else if input == "/.." {
            input = "/".to_string();
            if let Some(i) = output.rfind('/') {
                output.truncate(i);
            } else {
                output.clear();
            }
        } else if input == "." || input == ".." {
            input.clear();
        } else {
            // move the first path segment (including initial "/" if any) to the output
            let start = if input.starts_with('/') { 1 } else { 0 };
            let end = input[start..].find('/').map(|i| i + start).unwrap_or(input.len());
            output.push_str(&input[..end]);
            input.drain(..end);
        }
    }
    output
}

/// 5.2.3
fn merge(base: &Parts, rpath: &str) -> String {
    if base.authority.is_some() && base.path.is_empty() {
        format!("/{rpath}")
    } else if let Some(i) = base.path.rfind('/') {
        format!("{}{}", &base.path[..=i], rpath)
    } else {
        rpath.to_string()
    }
}

/// 5.3
pub fn recompose(t: &Parts) -> String {
    let mut s = String::new();
    if let Some(x) = &t.scheme {
        s.push_str(x);
        s.push(':');
    }
    if let Some(x) = &t.authority {
        s.push_str("//");
        s.push_str(x);
    }
    s.push_str(&t.path);
    if let Some(x) = &t.query {
        s.push('?');
        s.push_str(x);
    }
    if let Some(x) = &t.fragment {
        s.push('#');
        s.push_str(x);
    }
    s
}

#[derive(Clone, Debug, PartialEq, Eq)]
pub struct Resolution {
    pub result: String,
    pub target: Parts,
    /// which branch of 5.2.2 was taken
    pub branch: &'static str,
    /// the path handed to remove_dot_segments
    pub pre_path: String,
}

/// 5.2.2 (strict)
pub fn resolve(base: &str, reference: &str) -> Resolution {
    let b = split(base);
    let r = split(reference);
    let mut t = Parts::default();
    let branch;
    let pre_path;
    if r.scheme.is_some() {
        branch = "scheme";
        t.scheme = r.scheme.clone();
        t.authority = r.authority.clone();
        pre_path = r.path.clone();
        t.path = remove_dot_segments(&r.path);
        t.query = r.query.clone();
    } else {
        if r.authority.is_some() {
            branch = "authority";
            t.authority = r.authority.clone();
            pre_path = r.path.clone();
            t.path = remove_dot_segments(&r.path);
            t.query = r.query.clone();
        } else {
            if r.path.is_empty() {
                branch = "empty-path";
                pre_path = b.path.clone();
                t.path = b.path.clone();
                t.query = if r.query.is_some() { r.query.clone() } else { b.query.clone() };
            } else {
                if r.path.starts_with('/') {
                    branch = "absolute-path";
                    pre_path = r.path.clone();
                    t.path = remove_dot_segments(&r.path);
                } else {
                    branch = "relative-path";
                    pre_path = merge(&b, &r.path);
                    t.path = remove_dot_segments(&pre_path);
                }
                t.query = r.query.clone();
            }
            t.authority = b.authority.clone();
        }
        t.scheme = b.scheme.clone();
    }
    t.fragment = r.fragment.clone();
    Resolution { result: recompose(&t), target: t, branch, pre_path }
}


// ---------------------------------------------------------------------------------------------
// A model of the third-party resolver (oxiri 0.2) as read from its source, used only to give a
// *precise identity* to the known deviations from RFC 3986 5.2: an output that differs from the
// RFC result is a listed known finding only if it is exactly what this model predicts.

fn ox_remove_last_segment(out: &mut String, authority_end: usize, scheme_end: usize) {
    if let Some(i) = out[authority_end..].rfind('/') {
        out.truncate(i + authority_end);
        out.push('/');
    } else {
        out.truncate(authority_end);
        if authority_end > scheme_end {
            out.push('/');
        }
    }
}

/// parse_path::<true> of oxiri: consumes `input` (the rest of the reference), appends to `out`
fn ox_parse_path_rds(out: &mut String, input: &str, authority_end: usize, scheme_end: usize) -> Result<(), ()> {
    let mut chars = input.char_indices();
    loop {
        let n = chars.next();
        let c = n.map(|x| x.1);
        match c {
            None | Some('/') | Some('?') | Some('#') => {
                let path = out[authority_end..].to_string();
                if path.ends_with("/..") {
                    out.truncate(out.len() - 3);
                    ox_remove_last_segment(out, authority_end, scheme_end);
                } else if path.ends_with("/.") || path == "." {
                    out.truncate(out.len() - 1);
                } else if path == ".." {
                    out.truncate(out.len() - 2);
                } else if c == Some('/') {
                    out.push('/');
                    continue;
                }
                if out[authority_end..].starts_with("//") && authority_end == scheme_end {
                    return Err(());
                }
                match n {
                    Some((i, '?')) | Some((i, '#')) => {
                        out.push_str(&input[i..]);
                        return Ok(());
                    }
                    None => return Ok(()),
                    _ => {}
                }
            }
            Some(c) => out.push(c),
        }
    }
}

pub fn oxiri_model(base: &str, reference: &str) -> Result<String, ()> {
    let b = split(base);
    let r = split(reference);
    if r.scheme.is_some() {
        return Ok(reference.to_string());
    }
    let scheme_end = b.scheme.as_ref().map(|s| s.len() + 1).unwrap_or(0);
    let authority_end = scheme_end + b.authority.as_ref().map(|a| a.len() + 2).unwrap_or(0);
    let path_end = authority_end + b.path.len();
    let query_end = path_end + b.query.as_ref().map(|q| q.len() + 1).unwrap_or(0);
    if reference.is_empty() {
        return Ok(base[..query_end].to_string());
    }
    if reference.starts_with("//") {
        return Ok(format!("{}{}", &base[..scheme_end], reference));
    }
    if let Some(rest) = reference.strip_prefix('/') {
        let mut out = format!("{}/", &base[..authority_end]);
        ox_parse_path_rds(&mut out, rest, authority_end, scheme_end)?;
        return Ok(out);
    }
    if reference.starts_with('?') {
        return Ok(format!("{}{}", &base[..path_end], reference));
    }
    if reference.starts_with('#') {
        return Ok(format!("{}{}", &base[..query_end], reference));
    }
    let mut out = base[..path_end].to_string();
    ox_remove_last_segment(&mut out, authority_end, scheme_end);
    ox_parse_path_rds(&mut out, reference, authority_end, scheme_end)?;
    Ok(out)
}
