pub mod iso;
pub mod refiri;
pub mod refnq;
pub mod terms;
