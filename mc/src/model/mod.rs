pub mod iso;
pub mod refnq;
pub mod terms;
