pub mod graphs;
pub mod iso;
pub mod refiri;
pub mod refnq;
pub mod refrdfc;
pub mod refsparql;
pub mod terms;
pub mod xmlwf;
