//! An independent reader of the W3C N-Quads grammar (RDF 1.1 N-Quads + the RDF-star quoted
//! triple production), written from the EBNF. `generalized = true` additionally accepts any term
//! kind in any position and `?var` (used for the harness' own replay files only).
use super::terms::*;

pub struct Reader<'a> {
    s: &'a [u8],
    txt: &'a str,
    pos: usize,
    generalized: bool,
}

fn is_pn_chars_base(c: char) -> bool {
    matches!(c as u32,
        0x41..=0x5A | 0x61..=0x7A | 0xC0..=0xD6 | 0xD8..=0xF6 | 0xF8..=0x2FF | 0x370..=0x37D | 0x37F..=0x1FFF
        | 0x200C..=0x200D | 0x2070..=0x218F | 0x2C00..=0x2FEF | 0x3001..=0xD7FF | 0xF900..=0xFDCF
        | 0xFDF0..=0xFFFD | 0x10000..=0xEFFFF)
}
fn is_pn_chars_u(c: char) -> bool {
    is_pn_chars_base(c) || c == '_' || c == ':'
}
fn is_pn_chars(c: char) -> bool {
    is_pn_chars_u(c) || c == '-' || c.is_ascii_digit() || c as u32 == 0xB7 || matches!(c as u32, 0x300..=0x36F | 0x203F..=0x2040)
}

impl<'a> Reader<'a> {
    pub fn new(txt: &'a str, generalized: bool) -> Self {
        Reader { s: txt.as_bytes(), txt, pos: 0, generalized }
    }
    fn peek(&self) -> Option<char> {
        self.txt[self.pos..].chars().next()
    }
    fn bump(&mut self) -> Option<char> {
        let c = self.peek()?;
        self.pos += c.len_utf8();
        Some(c)
    }
    fn starts(&self, p: &str) -> bool {
        self.txt[self.pos..].starts_with(p)
    }
    fn ws(&mut self) {
        while self.pos < self.s.len() && (self.s[self.pos] == b' ' || self.s[self.pos] == b'\t') {
            self.pos += 1;
        }
    }
    fn err<T>(&self, m: &str) -> Result<T, String> {
        Err(format!("{m} at byte {}", self.pos))
    }
    fn uchar(&mut self, n: usize) -> Result<char, String> {
        let mut v: u32 = 0;
        for _ in 0..n {
            let Some(c) = self.bump() else { return self.err("truncated UCHAR") };
            let Some(d) = c.to_digit(16) else { return self.err("bad hex digit in UCHAR") };
            v = v * 16 + d;
        }
        match char::from_u32(v) {
            Some(c) => Ok(c),
            None => self.err("UCHAR is not a scalar value"),
        }
    }
    fn iriref(&mut self) -> Result<String, String> {
        if self.bump() != Some('<') {
            return self.err("expected <");
        }
        let mut out = String::new();
        loop {
            let Some(c) = self.bump() else { return self.err("unterminated IRIREF") };
            match c {
                '>' => return Ok(out),
                '\\' => match self.bump() {
                    Some('u') => out.push(self.uchar(4)?),
                    Some('U') => out.push(self.uchar(8)?),
                    _ => return self.err("bad escape in IRIREF"),
                },
                c if (c as u32) <= 0x20 || "<\"{}|^`".contains(c) => return self.err("illegal character in IRIREF"),
                c => out.push(c),
            }
        }
    }
    fn bnode(&mut self) -> Result<String, String> {
        if !self.starts("_:") {
            return self.err("expected _:");
        }
        self.pos += 2;
        let start = self.pos;
        match self.peek() {
            Some(c) if is_pn_chars_u(c) || c.is_ascii_digit() => {
                self.bump();
            }
            _ => return self.err("bad first character of blank node label"),
        }
        // (PN_CHARS | '.')* PN_CHARS  -- maximal munch then give back trailing dots
        let mut end = self.pos;
        while let Some(c) = self.peek() {
            if is_pn_chars(c) {
                self.bump();
                end = self.pos;
            } else if c == '.' {
                self.bump();
            } else {
                break;
            }
        }
        self.pos = end;
        Ok(self.txt[start..end].to_string())
    }
    fn literal(&mut self) -> Result<ATerm, String> {
        if self.bump() != Some('"') {
            return self.err("expected \"");
        }
        let mut lex = String::new();
        loop {
            let Some(c) = self.bump() else { return self.err("unterminated string") };
            match c {
                '"' => break,
                '\n' | '\r' => return self.err("raw line break in string"),
                '\\' => match self.bump() {
                    Some('t') => lex.push('\t'),
                    Some('b') => lex.push('\u{8}'),
                    Some('n') => lex.push('\n'),
                    Some('r') => lex.push('\r'),
                    Some('f') => lex.push('\u{c}'),
                    Some('"') => lex.push('"'),
                    Some('\'') => lex.push('\''),
                    Some('\\') => lex.push('\\'),
                    Some('u') => lex.push(self.uchar(4)?),
                    Some('U') => lex.push(self.uchar(8)?),
                    _ => return self.err("bad escape in string"),
                },
                c => lex.push(c),
            }
        }
        if self.starts("^^") {
            self.pos += 2;
            let dt = self.iriref()?;
            Ok(ATerm::Lit(dt, None, lex))
        } else if self.peek() == Some('@') {
            self.bump();
            let start = self.pos;
            let mut n = 0;
            while matches!(self.peek(), Some(c) if c.is_ascii_alphabetic()) {
                self.bump();
                n += 1;
            }
            if n == 0 {
                return self.err("empty language tag");
            }
            loop {
                if self.peek() == Some('-') {
                    let save = self.pos;
                    self.bump();
                    let mut m = 0;
                    while matches!(self.peek(), Some(c) if c.is_ascii_alphanumeric()) {
                        self.bump();
                        m += 1;
                    }
                    if m == 0 {
                        self.pos = save;
                        break;
                    }
                } else {
                    break;
                }
            }
            Ok(ATerm::Lit(RDF_LANGSTRING.to_string(), Some(self.txt[start..self.pos].to_string()), lex))
        } else {
            Ok(ATerm::Lit(XSD_STRING.to_string(), None, lex))
        }
    }
    fn var(&mut self) -> Result<ATerm, String> {
        self.bump();
        let start = self.pos;
        while matches!(self.peek(), Some(c) if c.is_alphanumeric() || c == '_') {
            self.bump();
        }
        if start == self.pos {
            return self.err("empty variable name");
        }
        Ok(ATerm::Var(self.txt[start..self.pos].to_string()))
    }
    fn quoted(&mut self) -> Result<ATerm, String> {
        self.pos += 2;
        self.ws();
        let s = self.term(0)?;
        self.ws();
        let p = self.term(1)?;
        self.ws();
        let o = self.term(2)?;
        self.ws();
        if !self.starts(">>") {
            return self.err("expected >>");
        }
        self.pos += 2;
        Ok(ATerm::triple(s, p, o))
    }
    /// position: 0 subject, 1 predicate, 2 object, 3 graph label
    pub fn term(&mut self, position: u8) -> Result<ATerm, String> {
        let t = if self.starts("<<") {
            self.quoted()?
        } else if self.starts("<") {
            ATerm::Iri(self.iriref()?)
        } else if self.starts("_:") {
            ATerm::Bnode(self.bnode()?)
        } else if self.starts("\"") {
            self.literal()?
        } else if self.generalized && self.starts("?") {
            self.var()?
        } else {
            return self.err("expected a term");
        };
        if !self.generalized {
            let ok = match (&t, position) {
                (ATerm::Iri(_), _) => true,
                (ATerm::Bnode(_), 0 | 2 | 3) => true,
                (ATerm::Triple(_), 0 | 2) => true,
                (ATerm::Lit(..), 2) => true,
                _ => false,
            };
            if !ok {
                return self.err("term kind not allowed in this position");
            }
        }
        Ok(t)
    }
    pub fn statement(&mut self) -> Result<AQuad, String> {
        self.ws();
        let s = self.term(0)?;
        self.ws();
        let p = self.term(1)?;
        self.ws();
        let o = self.term(2)?;
        self.ws();
        let g = if self.peek() == Some('.') { None } else { Some(self.term(3)?) };
        self.ws();
        if self.bump() != Some('.') {
            return self.err("expected .");
        }
        Ok(([s, p, o], g))
    }
    fn at_eol_or_end(&self) -> bool {
        self.pos >= self.s.len() || self.s[self.pos] == b'\n' || self.s[self.pos] == b'\r'
    }
    fn skip_comment(&mut self) {
        self.ws();
        if self.peek() == Some('#') {
            while !self.at_eol_or_end() {
                self.bump();
            }
        }
    }
    pub fn doc(&mut self) -> Result<Vec<AQuad>, String> {
        let mut out = vec![];
        loop {
            // blank / comment lines
            self.skip_comment();
            if self.pos >= self.s.len() {
                return Ok(out);
            }
            if self.at_eol_or_end() {
                self.pos += 1;
                continue;
            }
            out.push(self.statement()?);
            self.skip_comment();
            if !self.at_eol_or_end() {
                return self.err("expected end of line after statement");
            }
        }
    }
}

pub fn parse_doc(txt: &str, generalized: bool) -> Result<Vec<AQuad>, String> {
    Reader::new(txt, generalized).doc()
}
pub fn parse_quad(txt: &str) -> Result<AQuad, String> {
    let mut r = Reader::new(txt, true);
    r.statement()
}
pub fn parse_term(txt: &str) -> Result<ATerm, String> {
    let mut r = Reader::new(txt, true);
    r.ws();
    r.term(2)
}
