//! A small independent recogniser of XML 1.0 well-formedness (plus namespace well-formedness for
//! the prefixes used), sufficient for what an RDF/XML serializer can emit: prolog, nested elements,
//! attributes, character data with predefined entity and character references, comments.
use std::collections::BTreeSet;

pub fn is_xml_char(c: char) -> bool {
    matches!(c as u32, 0x9 | 0xA | 0xD | 0x20..=0xD7FF | 0xE000..=0xFFFD | 0x10000..=0x10FFFF)
}
pub fn is_name_start(c: char) -> bool {
    matches!(c as u32,
        0x41..=0x5A | 0x5F | 0x61..=0x7A | 0xC0..=0xD6 | 0xD8..=0xF6 | 0xF8..=0x2FF | 0x370..=0x37D | 0x37F..=0x1FFF
        | 0x200C..=0x200D | 0x2070..=0x218F | 0x2C00..=0x2FEF | 0x3001..=0xD7FF | 0xF900..=0xFDCF | 0xFDF0..=0xFFFD | 0x10000..=0xEFFFF)
}
pub fn is_name_char(c: char) -> bool {
    is_name_start(c) || matches!(c as u32, 0x2D | 0x2E | 0x30..=0x39 | 0xB7 | 0x300..=0x36F | 0x203F..=0x2040)
}
pub fn is_ncname(s: &str) -> bool {
    let mut it = s.chars();
    match it.next() {
        Some(c) if is_name_start(c) => it.all(is_name_char),
        _ => false,
    }
}
fn is_qname(s: &str) -> bool {
    match s.split_once(':') {
        None => is_ncname(s),
        Some((p, l)) => is_ncname(p) && is_ncname(l),
    }
}

struct P<'a> {
    s: &'a str,
    pos: usize,
}
impl<'a> P<'a> {
    fn rest(&self) -> &'a str {
        &self.s[self.pos..]
    }
    fn starts(&self, p: &str) -> bool {
        self.rest().starts_with(p)
    }
    fn peek(&self) -> Option<char> {
        self.rest().chars().next()
    }
    fn bump(&mut self) -> Option<char> {
        let c = self.peek()?;
        self.pos += c.len_utf8();
        Some(c)
    }
    fn ws(&mut self) -> usize {
        let mut n = 0;
        while matches!(self.peek(), Some(' ' | '\t' | '\n' | '\r')) {
            self.bump();
            n += 1;
        }
        n
    }
    fn err<T>(&self, m: &str) -> Result<T, String> {
        Err(format!("{m} at byte {}", self.pos))
    }
    fn name(&mut self) -> Result<&'a str, String> {
        let start = self.pos;
        while matches!(self.peek(), Some(c) if is_name_char(c) || c == ':') {
            self.bump();
        }
        let n = &self.s[start..self.pos];
        if n.is_empty() {
            return self.err("expected a name");
        }
        if !is_qname(n) {
            return self.err(&format!("{n:?} is not a QName"));
        }
        Ok(n)
    }
    fn reference(&mut self) -> Result<(), String> {
        // after '&'
        let end = match self.rest().find(';') {
            Some(e) => e,
            None => return self.err("unterminated reference"),
        };
        let body = &self.rest()[..end];
        let ok = if let Some(hex) = body.strip_prefix("#x") {
            u32::from_str_radix(hex, 16).ok().and_then(char::from_u32).map(is_xml_char).unwrap_or(false)
        } else if let Some(dec) = body.strip_prefix('#') {
            dec.parse::<u32>().ok().and_then(char::from_u32).map(is_xml_char).unwrap_or(false)
        } else {
            matches!(body, "lt" | "gt" | "amp" | "quot" | "apos")
        };
        if !ok {
            return self.err(&format!("bad reference &{body};"));
        }
        self.pos += end + 1;
        Ok(())
    }
    fn attributes(&mut self, declared: &mut Vec<String>, used: &mut Vec<String>) -> Result<(), String> {
        let mut seen: BTreeSet<&str> = BTreeSet::new();
        loop {
            let n = self.ws();
            match self.peek() {
                Some('>') | Some('/') | Some('?') => return Ok(()),
                None => return self.err("unterminated tag"),
                _ => {}
            }
            if n == 0 {
                return self.err("missing white space before attribute");
            }
            let name = self.name()?;
            if !seen.insert(name) {
                return self.err("duplicate attribute");
            }
            if name == "xmlns" {
                declared.push(String::new());
            } else if let Some(p) = name.strip_prefix("xmlns:") {
                declared.push(p.to_string());
            } else if let Some((p, _)) = name.split_once(':') {
                used.push(p.to_string());
            }
            self.ws();
            if self.bump() != Some('=') {
                return self.err("expected =");
            }
            self.ws();
            let q = match self.bump() {
                Some(c @ ('"' | '\'')) => c,
                _ => return self.err("expected quoted attribute value"),
            };
            let mut value_is_empty = true;
            loop {
                match self.bump() {
                    None => return self.err("unterminated attribute value"),
                    Some(c) if c == q => break,
                    Some('<') => return self.err("'<' in attribute value"),
                    Some('&') => self.reference()?,
                    Some(c) if !is_xml_char(c) => return self.err("illegal character in attribute value"),
                    Some(_) => {}
                }
                value_is_empty = false;
            }
            if name.starts_with("xmlns:") && value_is_empty {
                return self.err("prefix bound to the empty namespace");
            }
        }
    }
    fn element(&mut self, scope: &mut Vec<String>, depth: usize) -> Result<(), String> {
        // at '<'
        if depth > 2000 {
            return self.err("too deep");
        }
        self.bump();
        let name = self.name()?;
        let mut declared = vec![];
        let mut used = vec![];
        if let Some((p, _)) = name.split_once(':') {
            used.push(p.to_string());
        }
        self.attributes(&mut declared, &mut used)?;
        let n_decl = declared.len();
        scope.extend(declared);
        for u in used {
            if u != "xml" && !scope.contains(&u) {
                return self.err(&format!("prefix {u:?} is not declared"));
            }
        }
        if self.starts("/>") {
            self.pos += 2;
            scope.truncate(scope.len() - n_decl);
            return Ok(());
        }
        if self.bump() != Some('>') {
            return self.err("expected >");
        }
        loop {
            if self.starts("</") {
                self.pos += 2;
                let end = self.name()?;
                if end != name {
                    return self.err(&format!("end tag {end:?} does not match {name:?}"));
                }
                self.ws();
                if self.bump() != Some('>') {
                    return self.err("expected > after end tag");
                }
                scope.truncate(scope.len() - n_decl);
                return Ok(());
            } else if self.starts("<!--") {
                self.comment()?;
            } else if self.starts("<![CDATA[") {
                match self.rest().find("]]>") {
                    Some(e) => {
                        if !self.rest()[9..e].chars().all(is_xml_char) {
                            return self.err("illegal character in CDATA");
                        }
                        self.pos += e + 3;
                    }
                    None => return self.err("unterminated CDATA"),
                }
            } else if self.starts("<") {
                self.element(scope, depth + 1)?;
            } else {
                match self.bump() {
                    None => return self.err("unexpected end of document inside an element"),
                    Some('&') => self.reference()?,
                    Some(c) if !is_xml_char(c) => return self.err(&format!("illegal character U+{:04X} in text", c as u32)),
                    Some(']') if self.starts("]>") => return self.err("']]>' in text"),
                    Some(_) => {}
                }
            }
        }
    }
    fn comment(&mut self) -> Result<(), String> {
        match self.rest()[4..].find("--") {
            Some(e) if self.rest()[4 + e..].starts_with("-->") => {
                self.pos += 4 + e + 3;
                Ok(())
            }
            _ => self.err("bad comment"),
        }
    }
}

pub fn check(doc: &str) -> Result<(), String> {
    let mut p = P { s: doc, pos: 0 };
    if p.starts("<?xml") {
        match p.rest().find("?>") {
            Some(e) => p.pos += e + 2,
            None => return p.err("unterminated XML declaration"),
        }
    }
    loop {
        p.ws();
        if p.starts("<!--") {
            p.comment()?;
        } else {
            break;
        }
    }
    if !p.starts("<") {
        return p.err("expected the root element");
    }
    let mut scope = vec![];
    p.element(&mut scope, 0)?;
    loop {
        p.ws();
        if p.starts("<!--") {
            p.comment()?;
        } else {
            break;
        }
    }
    if p.pos != doc.len() {
        return p.err("content after the root element");
    }
    Ok(())
}
