//! Enumerations of small blank-node graphs (as datasets) for the canonicalisation / isomorphism checks.
use super::terms::*;

pub fn p() -> ATerm {
    ATerm::iri("http://ex.org/p")
}
fn node(i: usize) -> ATerm {
    ATerm::b(&format!("e{i}"))
}

/// digraph on n blank nodes from an adjacency bit mask (bit i*n+j = edge i -> j)
pub fn digraph(n: usize, mask: u64, loops: bool) -> Option<Vec<AQuad>> {
    let mut v = vec![];
    for i in 0..n {
        for j in 0..n {
            if mask & (1 << (i * n + j)) != 0 {
                if i == j && !loops {
                    return None;
                }
                v.push(([node(i), p(), node(j)], None));
            }
        }
    }
    Some(v)
}
/// undirected graph: each edge {i,j} (i<j) written in both directions
pub fn undirected(n: usize, mask: u64) -> Vec<AQuad> {
    let mut v = vec![];
    let mut k = 0;
    for i in 0..n {
        for j in (i + 1)..n {
            if mask & (1 << k) != 0 {
                v.push(([node(i), p(), node(j)], None));
                v.push(([node(j), p(), node(i)], None));
            }
            k += 1;
        }
    }
    v
}
pub fn cycle(n: usize) -> Vec<AQuad> {
    (0..n).map(|i| ([node(i), p(), node((i + 1) % n)], None)).collect()
}
pub fn star(n: usize) -> Vec<AQuad> {
    (1..n).map(|i| ([node(0), p(), node(i)], None)).collect()
}
pub fn clique(n: usize) -> Vec<AQuad> {
    let mut v = vec![];
    for i in 0..n {
        for j in 0..n {
            if i != j {
                v.push(([node(i), p(), node(j)], None));
            }
        }
    }
    v
}
pub fn bipartite(m: usize, n: usize) -> Vec<AQuad> {
    let mut v = vec![];
    for i in 0..m {
        for j in 0..n {
            v.push(([node(i), p(), node(m + j)], None));
        }
    }
    v
}
pub fn ladder(n: usize) -> Vec<AQuad> {
    // two rails of n nodes + rungs
    let mut v = vec![];
    for i in 0..n {
        if i + 1 < n {
            v.push(([node(i), p(), node(i + 1)], None));
            v.push(([node(n + i), p(), node(n + i + 1)], None));
        }
        v.push(([node(i), p(), node(n + i)], None));
    }
    v
}
pub fn binary_tree(n: usize) -> Vec<AQuad> {
    (1..n).map(|i| ([node((i - 1) / 2), p(), node(i)], None)).collect()
}
/// k disjoint copies of g (labels shifted)
pub fn copies(g: &[AQuad], k: usize) -> Vec<AQuad> {
    let mut v = vec![];
    for c in 0..k {
        for q in g {
            v.push(quad_rename(q, &|b| format!("{b}c{c}")));
        }
    }
    v
}
/// add one ground "mark" triple to the nodes selected by `marks`
pub fn decorate(g: &[AQuad], n: usize, marks: u64) -> Vec<AQuad> {
    let mut v = g.to_vec();
    for i in 0..n {
        if marks & (1 << i) != 0 {
            v.push(([node(i), ATerm::iri("http://ex.org/mark"), ATerm::lit("m")], None));
        }
    }
    v
}
/// move every quad into a blank graph name (shared by all quads)
pub fn in_blank_graph(g: &[AQuad], name: &str) -> Vec<AQuad> {
    g.iter().map(|q| (q.0.clone(), Some(ATerm::b(name)))).collect()
}

/// a cheap isomorphism invariant of a dataset (sorted multiset of per-node profiles)
pub fn invariant(g: &[AQuad]) -> String {
    let b = quad_bnodes(g);
    let mut prof: Vec<String> = b
        .iter()
        .map(|x| {
            let t = ATerm::Bnode(x.clone());
            let outd = g.iter().filter(|q| q.0[0] == t).count();
            let ind = g.iter().filter(|q| q.0[2] == t).count();
            let gd = g.iter().filter(|q| q.1.as_ref() == Some(&t)).count();
            let selfl = g.iter().filter(|q| q.0[0] == t && q.0[2] == t).count();
            let ground = g.iter().filter(|q| q.0[0] == t && q.0[2].is_ground()).count();
            format!("{outd}.{ind}.{gd}.{selfl}.{ground}")
        })
        .collect();
    prof.sort();
    format!("{}|{}", g.len(), prof.join(","))
}
