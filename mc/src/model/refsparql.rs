//! Reference SPARQL 1.1 algebra evaluator for the generated fragment: BGP (variables, blank-node
//! placeholders, quoted-triple patterns), UNION, GRAPH, FILTER, BIND, DISTINCT, projection,
//! OFFSET/LIMIT, ASK.  Multiset semantics, three-valued logic, errors in FILTER => false,
//! errors in BIND => unbound.
use super::terms::*;
use std::collections::BTreeMap;

pub type Sol = BTreeMap<String, ATerm>;

thread_local! {
    /// set when the reference met an operator application that SPARQL 1.1 leaves to extensions
    pub static UNSPECIFIED: std::cell::Cell<bool> = const { std::cell::Cell::new(false) };
}

#[derive(Clone, Debug, PartialEq)]
pub enum TP {
    Var(String),
    Const(ATerm),
    Bnode(String),
    Quoted(Box<[TP; 3]>),
}
#[derive(Clone, Debug, PartialEq)]
pub enum GN {
    Const(ATerm),
    Var(String),
}
#[derive(Clone, Debug, PartialEq)]
pub enum Pat {
    Bgp(Vec<[TP; 3]>),
    Union(Box<Pat>, Box<Pat>),
    Graph(GN, Box<Pat>),
    Filter(Box<Pat>, Expr),
    Bind(Box<Pat>, Expr, String),
}
#[derive(Clone, Debug, PartialEq)]
pub enum Expr {
    Var(String),
    Const(ATerm),
    Eq(Box<Expr>, Box<Expr>),
    Neq(Box<Expr>, Box<Expr>),
    Lt(Box<Expr>, Box<Expr>),
    Or(Box<Expr>, Box<Expr>),
    And(Box<Expr>, Box<Expr>),
    Not(Box<Expr>),
    Bound(String),
    IsIri(Box<Expr>),
    IsBlank(Box<Expr>),
    IsLiteral(Box<Expr>),
    SameTerm(Box<Expr>, Box<Expr>),
    Str(Box<Expr>),
    Lang(Box<Expr>),
    Datatype(Box<Expr>),
    Add(Box<Expr>, Box<Expr>),
}
#[derive(Clone, Debug, PartialEq)]
pub struct Query {
    pub ask: bool,
    pub distinct: bool,
    pub proj: Option<Vec<String>>,
    pub pat: Pat,
    pub offset: usize,
    pub limit: Option<usize>,
}

// ---------------------------------------------------------------------------------------------
// rendering (SPARQL concrete syntax)

fn r_term(t: &ATerm) -> String {
    match t {
        ATerm::Triple(tr) => format!("<< {} {} {} >>", r_term(&tr[0]), r_term(&tr[1]), r_term(&tr[2])),
        ATerm::Lit(dt, None, lex) if dt == &format!("{XSD}integer") && lex.chars().all(|c| c.is_ascii_digit()) => lex.clone(),
        ATerm::Lit(dt, None, lex) if dt == &format!("{XSD}boolean") && (lex == "true" || lex == "false") => lex.clone(),
        other => other.nq(),
    }
}
fn r_tp(t: &TP) -> String {
    match t {
        TP::Var(v) => format!("?{v}"),
        TP::Const(c) => r_term(c),
        TP::Bnode(b) => format!("_:{b}"),
        TP::Quoted(q) => format!("<< {} {} {} >>", r_tp(&q[0]), r_tp(&q[1]), r_tp(&q[2])),
    }
}
pub fn r_expr(e: &Expr) -> String {
    use Expr::*;
    match e {
        Var(v) => format!("?{v}"),
        Const(c) => r_term(c),
        Eq(a, b) => format!("({} = {})", r_expr(a), r_expr(b)),
        Neq(a, b) => format!("({} != {})", r_expr(a), r_expr(b)),
        Lt(a, b) => format!("({} < {})", r_expr(a), r_expr(b)),
        Or(a, b) => format!("({} || {})", r_expr(a), r_expr(b)),
        And(a, b) => format!("({} && {})", r_expr(a), r_expr(b)),
        Not(a) => format!("(!{})", r_expr(a)),
        Bound(v) => format!("bound(?{v})"),
        IsIri(a) => format!("isIRI({})", r_expr(a)),
        IsBlank(a) => format!("isBlank({})", r_expr(a)),
        IsLiteral(a) => format!("isLiteral({})", r_expr(a)),
        SameTerm(a, b) => format!("sameTerm({}, {})", r_expr(a), r_expr(b)),
        Str(a) => format!("str({})", r_expr(a)),
        Lang(a) => format!("lang({})", r_expr(a)),
        Datatype(a) => format!("datatype({})", r_expr(a)),
        Add(a, b) => format!("({} + {})", r_expr(a), r_expr(b)),
    }
}
/// render a pattern as the *content* of a group
pub fn r_pat(p: &Pat) -> String {
    match p {
        Pat::Bgp(ts) => ts.iter().map(|t| format!("{} {} {} .", r_tp(&t[0]), r_tp(&t[1]), r_tp(&t[2]))).collect::<Vec<_>>().join(" "),
        Pat::Union(a, b) => format!("{{ {} }} UNION {{ {} }}", r_pat(a), r_pat(b)),
        Pat::Graph(g, a) => format!(
            "GRAPH {} {{ {} }}",
            match g {
                GN::Const(c) => r_term(c),
                GN::Var(v) => format!("?{v}"),
            },
            r_pat(a)
        ),
        // a FILTER scopes over its whole group and a BIND ends the BGP before it: wrap the inner
        // pattern in its own group unless it is a plain BGP
        Pat::Filter(a, e) => match **a {
            Pat::Bgp(_) => format!("{} FILTER({})", r_pat(a), r_expr(e)),
            _ => format!("{{ {} }} FILTER({})", r_pat(a), r_expr(e)),
        },
        Pat::Bind(a, e, v) => match **a {
            Pat::Bgp(_) => format!("{} BIND({} AS ?{v})", r_pat(a), r_expr(e)),
            _ => format!("{{ {} }} BIND({} AS ?{v})", r_pat(a), r_expr(e)),
        },
    }
}
pub fn render(q: &Query) -> String {
    if q.ask {
        return format!("ASK {{ {} }}", r_pat(&q.pat));
    }
    let mut s = format!(
        "SELECT {}{} WHERE {{ {} }}",
        if q.distinct { "DISTINCT " } else { "" },
        match &q.proj {
            None => "*".to_string(),
            Some(v) => v.iter().map(|x| format!("?{x}")).collect::<Vec<_>>().join(" "),
        },
        r_pat(&q.pat)
    );
    if q.offset > 0 {
        s += &format!(" OFFSET {}", q.offset);
    }
    if let Some(l) = q.limit {
        s += &format!(" LIMIT {l}");
    }
    s
}

// ---------------------------------------------------------------------------------------------
// expressions

#[derive(Debug, Clone, PartialEq)]
enum Val {
    Int(i64),
    Flt(f32),
    Dbl(f64),
    Str(String),
    Bool(bool),
    Other,
}
fn val(t: &ATerm) -> Val {
    match t {
        ATerm::Lit(dt, None, lex) if dt == &format!("{XSD}integer") => lex.parse::<i64>().map(Val::Int).unwrap_or(Val::Other),
        // (only plain decimal / exponent lexical forms are used for float and double by the generators)
        ATerm::Lit(dt, None, lex) if dt == &format!("{XSD}float") => lex.parse::<f32>().map(Val::Flt).unwrap_or(Val::Other),
        ATerm::Lit(dt, None, lex) if dt == &format!("{XSD}double") => lex.parse::<f64>().map(Val::Dbl).unwrap_or(Val::Other),
        ATerm::Lit(dt, None, lex) if dt == XSD_STRING => Val::Str(lex.clone()),
        ATerm::Lit(dt, None, lex) if dt == &format!("{XSD}boolean") => match lex.as_str() {
            "true" | "1" => Val::Bool(true),
            "false" | "0" => Val::Bool(false),
            _ => Val::Other,
        },
        _ => Val::Other,
    }
}
fn ebv(t: &ATerm) -> Option<bool> {
    match t {
        ATerm::Lit(dt, lang, lex) => {
            if lang.is_some() {
                // language-tagged strings are not in the EBV table of SPARQL 1.1 (plain literal with
                // tag *is* a plain literal in SPARQL 1.1: EBV = non-empty)
                return Some(!lex.is_empty());
            }
            match val(t) {
                Val::Int(i) => Some(i != 0),
                Val::Flt(x) => Some(x != 0.0 && !x.is_nan()),
                Val::Dbl(x) => Some(x != 0.0 && !x.is_nan()),
                Val::Str(s) => Some(!s.is_empty()),
                Val::Bool(b) => Some(b),
                Val::Other => {
                    if dt == &format!("{XSD}integer") || dt == &format!("{XSD}boolean") {
                        Some(false) // ill-typed numeric/boolean: EBV false
                    } else {
                        None
                    }
                }
            }
        }
        _ => None,
    }
}
/// both operands are string-like literals and at least one carries a language tag
fn lang_string_comparison(a: &Option<ATerm>, c: &Option<ATerm>) -> bool {
    match (a, c) {
        (Some(ATerm::Lit(d1, l1, _)), Some(ATerm::Lit(d2, l2, _))) => (l1.is_some() || l2.is_some()) && (d1 == RDF_LANGSTRING || d1 == XSD_STRING) && (d2 == RDF_LANGSTRING || d2 == XSD_STRING),
        _ => false,
    }
}
fn b(x: bool) -> ATerm {
    ATerm::typed(if x { "true" } else { "false" }, &format!("{XSD}boolean"))
}
fn is_lit(t: &ATerm) -> bool {
    matches!(t, ATerm::Lit(..))
}
/// numeric comparison with XPath type promotion: integer -> float -> double
fn num_cmp(a: &Val, c: &Val) -> Option<Option<std::cmp::Ordering>> {
    use Val::*;
    Some(match (a, c) {
        (Int(x), Int(y)) => Some(x.cmp(y)),
        (Flt(x), Flt(y)) => x.partial_cmp(y),
        (Int(x), Flt(y)) => (*x as f32).partial_cmp(y),
        (Flt(x), Int(y)) => x.partial_cmp(&(*y as f32)),
        (Dbl(x), Dbl(y)) => x.partial_cmp(y),
        (Dbl(x), Flt(y)) => x.partial_cmp(&(*y as f64)),
        (Flt(x), Dbl(y)) => (*x as f64).partial_cmp(y),
        (Dbl(x), Int(y)) => x.partial_cmp(&(*y as f64)),
        (Int(x), Dbl(y)) => (*x as f64).partial_cmp(y),
        _ => return None,
    })
}
/// RDFterm-equal extended with the value-based equalities of the operator table
fn eq(a: &ATerm, c: &ATerm) -> Option<bool> {
    if let Some(o) = num_cmp(&val(a), &val(c)) {
        return Some(o == Some(std::cmp::Ordering::Equal));
    }
    match (val(a), val(c)) {
        (Val::Int(x), Val::Int(y)) => Some(x == y),
        (Val::Str(x), Val::Str(y)) => Some(x == y),
        (Val::Bool(x), Val::Bool(y)) => Some(x == y),
        _ => {
            if a.same_term(c) {
                Some(true)
            } else if is_lit(a) && is_lit(c) {
                // RDFterm-equal: "produces a type error if the arguments are both literal but are
                // not the same RDF term"
                None
            } else {
                Some(false)
            }
        }
    }
}
pub fn eval(e: &Expr, s: &Sol) -> Option<ATerm> {
    use Expr::*;
    match e {
        Var(v) => s.get(v).cloned(),
        Const(c) => Some(c.clone()),
        Eq(x, y) => eq(&eval(x, s)?, &eval(y, s)?).map(b),
        Neq(x, y) => eq(&eval(x, s)?, &eval(y, s)?).map(|r| b(!r)),
        Lt(x, y) => match (val(&eval(x, s)?), val(&eval(y, s)?)) {
            _ if lang_string_comparison(&eval(x, s), &eval(y, s)) => {
                // '<' involving a language-tagged string is a gap of the SPARQL 1.1 operator table
                // that an implementation may fill (extensibility, section 17.3.1): no verdict
                UNSPECIFIED.with(|u| u.set(true));
                None
            }
            (p, q) if num_cmp(&p, &q).is_some() => Some(b(num_cmp(&p, &q).unwrap() == Some(std::cmp::Ordering::Less))),
            (Val::Str(p), Val::Str(q)) => Some(b(p < q)),
            (Val::Bool(p), Val::Bool(q)) => Some(b(!p & q)),
            _ => None,
        },
        Or(x, y) => {
            let l = eval(x, s).and_then(|t| ebv(&t));
            let r = eval(y, s).and_then(|t| ebv(&t));
            match (l, r) {
                (Some(true), _) | (_, Some(true)) => Some(b(true)),
                (Some(false), Some(false)) => Some(b(false)),
                _ => None,
            }
        }
        And(x, y) => {
            let l = eval(x, s).and_then(|t| ebv(&t));
            let r = eval(y, s).and_then(|t| ebv(&t));
            match (l, r) {
                (Some(false), _) | (_, Some(false)) => Some(b(false)),
                (Some(true), Some(true)) => Some(b(true)),
                _ => None,
            }
        }
        Not(x) => ebv(&eval(x, s)?).map(|r| b(!r)),
        Bound(v) => Some(b(s.contains_key(v))),
        IsIri(x) => Some(b(matches!(eval(x, s)?, ATerm::Iri(_)))),
        IsBlank(x) => Some(b(matches!(eval(x, s)?, ATerm::Bnode(_)))),
        IsLiteral(x) => Some(b(is_lit(&eval(x, s)?))),
        SameTerm(x, y) => Some(b(eval(x, s)?.same_term(&eval(y, s)?))),
        Str(x) => match eval(x, s)? {
            ATerm::Iri(i) => Some(ATerm::lit(&i)),
            ATerm::Lit(_, _, lex) => Some(ATerm::lit(&lex)),
            _ => None,
        },
        Lang(x) => match eval(x, s)? {
            ATerm::Lit(_, lang, _) => Some(ATerm::lit(&lang.unwrap_or_default())),
            _ => None,
        },
        Datatype(x) => match eval(x, s)? {
            ATerm::Lit(dt, _, _) => Some(ATerm::Iri(dt)),
            _ => None,
        },
        Add(x, y) => match (val(&eval(x, s)?), val(&eval(y, s)?)) {
            (Val::Int(p), Val::Int(q)) => Some(ATerm::typed(&(p + q).to_string(), &format!("{XSD}integer"))),
            (p, q) if num_cmp(&p, &q).is_some() => {
                // the lexical form of a float/double sum is implementation-defined: no verdict
                UNSPECIFIED.with(|u| u.set(true));
                None
            }
            _ => None,
        },
    }
}

// ---------------------------------------------------------------------------------------------
// algebra

fn compatible_merge(a: &Sol, c: &Sol) -> Option<Sol> {
    let mut r = a.clone();
    for (k, v) in c {
        if let Some(x) = r.get(k) {
            if !x.same_term(v) {
                return None;
            }
        } else {
            r.insert(k.clone(), v.clone());
        }
    }
    Some(r)
}
fn match_tp(tp: &TP, t: &ATerm, cur: &mut Sol) -> bool {
    match tp {
        TP::Const(c) => c.same_term(t),
        TP::Var(v) => match cur.get(v) {
            Some(x) => x.same_term(t),
            None => {
                cur.insert(v.clone(), t.clone());
                true
            }
        },
        TP::Bnode(l) => {
            let k = format!("\0{l}");
            match cur.get(&k) {
                Some(x) => x.same_term(t),
                None => {
                    cur.insert(k, t.clone());
                    true
                }
            }
        }
        TP::Quoted(q) => match t {
            ATerm::Triple(tr) => (0..3).all(|i| match_tp(&q[i], &tr[i], cur)),
            _ => false,
        },
    }
}
fn bgp(ts: &[[TP; 3]], triples: &[[ATerm; 3]]) -> Vec<Sol> {
    let mut sols: Vec<Sol> = vec![Sol::new()];
    for tp in ts {
        let mut next = vec![];
        for s in &sols {
            for t in triples {
                let mut cur = s.clone();
                if (0..3).all(|i| match_tp(&tp[i], &t[i], &mut cur)) {
                    next.push(cur);
                }
            }
        }
        sols = next;
    }
    sols.into_iter().map(|s| s.into_iter().filter(|(k, _)| !k.starts_with('\0')).collect()).collect()
}
fn graph_triples(d: &[AQuad], g: &Option<ATerm>) -> Vec<[ATerm; 3]> {
    let mut v: Vec<[ATerm; 3]> = d
        .iter()
        .filter(|q| match (&q.1, g) {
            (None, None) => true,
            (Some(a), Some(b)) => a.same_term(b),
            _ => false,
        })
        .map(|q| q.0.clone())
        .collect();
    v.sort();
    v.dedup();
    v
}
fn graph_names(d: &[AQuad]) -> Vec<ATerm> {
    let mut names: Vec<ATerm> = d.iter().filter_map(|q| q.1.clone()).collect();
    names.sort();
    names.dedup();
    names
}
/// `active`: Ok(graph name or default) | Err(()) = a named graph that does not exist in the dataset
pub fn eval_pat(p: &Pat, d: &[AQuad], active: &Result<Option<ATerm>, ()>) -> Vec<Sol> {
    match p {
        Pat::Bgp(ts) => match active {
            Ok(g) => bgp(ts, &graph_triples(d, g)),
            Err(()) => vec![],
        },
        Pat::Union(a, c) => {
            let mut r = eval_pat(a, d, active);
            r.extend(eval_pat(c, d, active));
            r
        }
        Pat::Graph(GN::Const(g), a) => {
            if graph_names(d).iter().any(|n| n.same_term(g)) {
                eval_pat(a, d, &Ok(Some(g.clone())))
            } else {
                // "if IRI is not a graph name in D: the empty multiset"
                vec![]
            }
        }
        Pat::Graph(GN::Var(v), a) => {
            let mut r = vec![];
            for g in graph_names(d) {
                for s in eval_pat(a, d, &Ok(Some(g.clone()))) {
                    let mut one = Sol::new();
                    one.insert(v.clone(), g.clone());
                    if let Some(m) = compatible_merge(&s, &one) {
                        r.push(m);
                    }
                }
            }
            r
        }
        Pat::Filter(a, e) => eval_pat(a, d, active).into_iter().filter(|s| eval(e, s).and_then(|t| ebv(&t)) == Some(true)).collect(),
        Pat::Bind(a, e, v) => eval_pat(a, d, active)
            .into_iter()
            .map(|mut s| {
                if let Some(t) = eval(e, &s) {
                    s.insert(v.clone(), t);
                }
                s
            })
            .collect(),
    }
}
/// solutions before OFFSET/LIMIT (those are checked as "a sub-multiset of the right size")
pub fn eval_query(q: &Query, d: &[AQuad]) -> Vec<Sol> {
    let mut sols = eval_pat(&q.pat, d, &Ok(None));
    if let Some(p) = &q.proj {
        sols = sols.into_iter().map(|s| s.into_iter().filter(|(k, _)| p.contains(k)).collect()).collect();
    }
    if q.distinct {
        let mut seen: Vec<Sol> = vec![];
        sols.retain(|s| {
            let k: Sol = s.iter().map(|(k, v)| (k.clone(), v.key())).collect();
            if seen.contains(&k) {
                false
            } else {
                seen.push(k);
                true
            }
        });
    }
    sols
}
