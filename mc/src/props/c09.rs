//! C09 — IRI validation is exactly RFC 3987 and agrees with the resolver.
//!
//! (1) E3: product automaton of (DFA determinised from the crate's own regex source string) x
//!     (DFA of the RFC 3987 ABNF transcription): all reachable product states, i.e. all strings of
//!     every length; every product edge yields a witness string replayed against the real API
//!     (conformance of the model with the code).
//! (2) E4: all strings up to length n over a 14-symbol alphabet: accepted => usable as base (oxiri).
//! (3) all IPv6 literal skeletons.
//! (4) all (base, reference) pairs of a generated set: resolution == RFC 3986 section 5.2.
use crate::fw::*;
use crate::model::refiri;
use rayon::prelude::*;
use regex_automata::dfa::{Automaton, StartKind, dense};
use regex_automata::util::primitives::StateID;
use regex_automata::util::{start, syntax};
use regex_automata::Anchored;
use serde_json::{Value, json};
use sophia_iri::resolve::{BaseIri, BaseIriRef};
use sophia_iri::{Iri, IriRef};
use std::collections::{BTreeMap, BTreeSet, HashMap, VecDeque};

type Dfa = dense::DFA<Vec<u32>>;

fn build_dfa(pattern: &str) -> Dfa {
    dense::Builder::new()
        .configure(dense::Config::new().start_kind(StartKind::Anchored).minimize(true).dfa_size_limit(None).determinize_size_limit(None))
        .syntax(syntax::Config::new().unicode(true).utf8(true))
        .build(pattern)
        .unwrap_or_else(|e| {
            eprintln!("ENGINE ERROR: cannot determinise regex: {e}");
            std::process::exit(2)
        })
}
fn start_of(d: &Dfa) -> StateID {
    d.start_state(&start::Config::new().anchored(Anchored::Yes)).expect("start state")
}
fn accepts_state(d: &Dfa, s: StateID) -> bool {
    d.is_match_state(d.next_eoi_state(s))
}
fn run_dfa(d: &Dfa, bytes: &[u8]) -> bool {
    let mut s = start_of(d);
    for b in bytes {
        s = d.next_state(s, *b);
    }
    accepts_state(d, s)
}

struct Product {
    /// product states in BFS order; (code state, ref state)
    states: Vec<(StateID, StateID)>,
    /// parent pointer: (index of predecessor, byte)
    parent: Vec<Option<(usize, u8)>>,
    /// distinct edges (from, byte, to)
    edges: Vec<(usize, u8, usize)>,
    transitions: u64,
}

fn product(code: &Dfa, reference: &Dfa) -> Product {
    let mut index: HashMap<(StateID, StateID), usize> = HashMap::new();
    let mut p = Product { states: vec![], parent: vec![], edges: vec![], transitions: 0 };
    let s0 = (start_of(code), start_of(reference));
    index.insert(s0, 0);
    p.states.push(s0);
    p.parent.push(None);
    let mut queue = VecDeque::from([0usize]);
    while let Some(i) = queue.pop_front() {
        let (a, b) = p.states[i];
        let mut seen_targets: BTreeSet<usize> = BTreeSet::new();
        for byte in 0..=255u8 {
            let na = code.next_state(a, byte);
            let nb = reference.next_state(b, byte);
            if code.is_dead_state(na) && reference.is_dead_state(nb) {
                continue;
            }
            p.transitions += 1;
            let key = (na, nb);
            let j = match index.get(&key) {
                Some(j) => *j,
                None => {
                    let j = p.states.len();
                    index.insert(key, j);
                    p.states.push(key);
                    p.parent.push(Some((i, byte)));
                    queue.push_back(j);
                    j
                }
            };
            if seen_targets.insert(j) {
                p.edges.push((i, byte, j));
            }
        }
    }
    p
}

impl Product {
    fn prefix(&self, mut i: usize) -> Vec<u8> {
        let mut v = vec![];
        while let Some((j, b)) = self.parent[i] {
            v.push(b);
            i = j;
        }
        v.reverse();
        v
    }
    /// shortest suffix from every state to a state satisfying `goal` (reverse BFS)
    fn completions(&self, goal: &dyn Fn(usize) -> bool) -> Vec<Option<(usize, u8)>> {
        // next[i] = Some((j, byte)) : first step of a shortest path from i to a goal state
        let n = self.states.len();
        let mut rev: Vec<Vec<(usize, u8)>> = vec![vec![]; n];
        for (i, b, j) in &self.edges {
            rev[*j].push((*i, *b));
        }
        let mut next: Vec<Option<(usize, u8)>> = vec![None; n];
        let mut done = vec![false; n];
        let mut q = VecDeque::new();
        for i in 0..n {
            if goal(i) {
                done[i] = true;
                q.push_back(i);
            }
        }
        while let Some(j) = q.pop_front() {
            for (i, b) in &rev[j] {
                if !done[*i] {
                    done[*i] = true;
                    next[*i] = Some((j, *b));
                    q.push_back(*i);
                }
            }
        }
        // mark goal states as reachable with empty suffix by a self marker
        for i in 0..n {
            if goal(i) {
                next[i] = Some((i, 0)); // sentinel: already at goal
            }
        }
        next
    }
}

fn follow(next: &[Option<(usize, u8)>], mut i: usize, goal: &dyn Fn(usize) -> bool) -> Option<Vec<u8>> {
    let mut v = vec![];
    let mut guard = 0;
    while !goal(i) {
        let (j, b) = next[i]?;
        v.push(b);
        i = j;
        guard += 1;
        if guard > 10_000 {
            return None;
        }
    }
    Some(v)
}

struct Dfas {
    code_abs: Dfa,
    code_rel: Dfa,
    ref_abs: Dfa,
    ref_rel: Dfa,
}

/// verdicts of the real API for one string; panics are caught and reported
fn api_check(w: &str, d: &Dfas, out: &mut Vec<Violation>, st: &mut Stats) {
    let bytes = w.as_bytes();
    let ca = run_dfa(&d.code_abs, bytes);
    let cr = run_dfa(&d.code_rel, bytes);
    let ra = run_dfa(&d.ref_abs, bytes);
    let rr = run_dfa(&d.ref_rel, bytes);
    let case = json!({"kind": "string", "string": w});
    let res = guarded(|| {
        (
            sophia_iri::is_absolute_iri_ref(w),
            sophia_iri::is_relative_iri_ref(w),
            sophia_iri::is_valid_iri_ref(w),
            Iri::new(w).is_ok(),
            IriRef::new(w).is_ok(),
        )
    });
    let (abs, rel, valid, iri_ok, iriref_ok) = match res {
        Ok(r) => r,
        Err(p) => {
            out.push(Violation::new("validator-panic", format!("validating {w:?} panicked: {p}"), case));
            return;
        }
    };
    st.inc("validated");
    // conformance of the determinised model with the code
    if abs != ca || rel != cr || valid != (ca || cr) || iri_ok != ca || iriref_ok != (ca || cr) {
        out.push(Violation::new(
            "model-does-not-conform",
            format!("{w:?}: API says abs={abs} rel={rel} valid={valid} Iri::new={iri_ok} IriRef::new={iriref_ok}; DFA of the regex sources says abs={ca} rel={cr}"),
            case.clone(),
        ));
    }
    // the property: exactly RFC 3987
    if abs != ra || iri_ok != ra {
        let sig = if ra { "rfc3987-iri-rejected" } else { "non-iri-accepted" };
        out.push(Violation::new(sig, format!("{w:?}: RFC 3987 IRI = {ra}, is_absolute_iri_ref = {abs}, Iri::new ok = {iri_ok}"), case.clone()));
    }
    if rel != rr {
        let sig = if rr { "rfc3987-relative-ref-rejected" } else { "non-relative-ref-accepted" };
        out.push(Violation::new(sig, format!("{w:?}: RFC 3987 irelative-ref = {rr}, is_relative_iri_ref = {rel}"), case.clone()));
    }
    if valid != (ra || rr) || iriref_ok != (ra || rr) {
        let sig = if ra || rr { "rfc3987-iri-reference-rejected" } else { "non-iri-reference-accepted" };
        out.push(Violation::new(sig, format!("{w:?}: RFC 3987 IRI-reference = {}, is_valid_iri_ref = {valid}, IriRef::new ok = {iriref_ok}", ra || rr), case.clone()));
    }
    // absolute/relative classification is exclusive
    if abs && rel {
        out.push(Violation::new("classified-absolute-and-relative", format!("{w:?}"), case.clone()));
    }
    // every accepted value can be used as a base without panicking, with the same verdict
    if iriref_ok {
        st.inc("accepted");
        let r = guarded(|| {
            let ir = IriRef::new_unchecked(w);
            let b1 = ir.as_base();
            let b2 = IriRef::new_unchecked(w.to_string()).to_base();
            let ok = BaseIriRef::new(w).is_ok();
            (b1.as_str() == w, b2.as_str() == w, ok)
        });
        match r {
            Ok((true, true, true)) => {}
            Ok(x) => out.push(Violation::new("accepted-ref-base-mismatch", format!("{w:?}: as_base/to_base/BaseIriRef::new gave {x:?}"), case.clone())),
            Err(p) => out.push(Violation::new("accepted-ref-cannot-be-base", format!("{w:?} is accepted by IriRef::new but as_base()/to_base() panics: {p}"), case.clone())),
        }
        // Namespace::get on every split point whose prefix is itself valid
        for (i, _) in w.char_indices().chain([(w.len(), ' ')]) {
            let (ns, suffix) = w.split_at(i);
            if let Ok(ns) = sophia_api::ns::Namespace::new(ns) {
                match guarded(|| ns.get(suffix).is_ok()) {
                    Ok(true) => {}
                    Ok(false) => out.push(Violation::new("namespace-get-rejects-valid", format!("Namespace({:?}).get({suffix:?}) is an error although {w:?} is a valid IRI reference", ns.as_str()), case.clone())),
                    Err(p) => out.push(Violation::new("namespace-get-panic", format!("{w:?}: {p}"), case.clone())),
                }
                st.inc("namespace_splits");
            }
        }
    } else {
        // rejected: Namespace::get must reject every split too
        for (i, _) in w.char_indices() {
            let (ns, suffix) = w.split_at(i);
            if let Ok(ns) = sophia_api::ns::Namespace::new(ns) {
                if let Ok(true) = guarded(|| ns.get(suffix).is_ok()) {
                    out.push(Violation::new("namespace-get-accepts-invalid", format!("Namespace({:?}).get({suffix:?}) is Ok although {w:?} is not a valid IRI reference", ns.as_str()), case.clone()));
                }
                st.inc("namespace_splits");
            }
        }
    }
    if iri_ok {
        let r = guarded(|| {
            let i = Iri::new_unchecked(w);
            let b1 = i.as_base();
            let b2 = Iri::new_unchecked(w.to_string()).to_base();
            let ok = BaseIri::new(w).is_ok();
            (b1.as_str() == w, b2.as_str() == w, ok)
        });
        match r {
            Ok((true, true, true)) => {}
            Ok(x) => out.push(Violation::new("accepted-iri-base-mismatch", format!("{w:?}: as_base/to_base/BaseIri::new gave {x:?}"), case.clone())),
            Err(p) => out.push(Violation::new("accepted-iri-cannot-be-base", format!("{w:?} is accepted by Iri::new but as_base()/to_base() panics: {p}"), case.clone())),
        }
    }
}

fn explore_product(name: &str, code: &Dfa, reference: &Dfa, d: &Dfas, rep: &mut Report) {
    let p = product(code, reference);
    rep.stats.add("states", p.states.len() as u64);
    rep.stats.add("transitions", p.transitions);
    rep.stats.add(&format!("product_states[{name}]"), p.states.len() as u64);
    rep.stats.add(&format!("product_edges[{name}]"), p.edges.len() as u64);
    // language difference: a product state where exactly one side accepts at end of input
    let acc_c = |i: usize| accepts_state(code, p.states[i].0);
    let acc_r = |i: usize| accepts_state(reference, p.states[i].1);
    let mut differing = 0;
    for i in 0..p.states.len() {
        if acc_c(i) != acc_r(i) {
            differing += 1;
            let w = p.prefix(i);
            let ws = String::from_utf8_lossy(&w).to_string();
            let sig = if acc_r(i) { format!("{name}:product-state-rfc-member-rejected") } else { format!("{name}:product-state-non-member-accepted") };
            if differing <= 50 {
                rep.violations.push(Violation::new(sig, format!("shortest witness {ws:?}: regex accepts = {}, RFC 3987 accepts = {}", acc_c(i), acc_r(i)), json!({"kind": "string", "string": ws})));
            }
        }
    }
    rep.stats.add(&format!("product_differing_states[{name}]"), differing);
    // conformance: one witness per product edge, replayed against the real API
    let next_c = p.completions(&acc_c);
    let next_r = p.completions(&acc_r);
    let witnesses: Vec<String> = p
        .edges
        .iter()
        .flat_map(|(i, b, j)| {
            let mut out = vec![];
            let mut base = p.prefix(*i);
            base.push(*b);
            // (a) completed to a string the code accepts, (b) to one the reference accepts, (c) cut right here
            for comp in [follow(&next_c, *j, &acc_c), follow(&next_r, *j, &acc_r), Some(vec![])] {
                if let Some(c) = comp {
                    let mut w = base.clone();
                    w.extend(c);
                    if let Ok(s) = String::from_utf8(w) {
                        out.push(s);
                    }
                }
            }
            out
        })
        .collect();
    let uniq: BTreeSet<String> = witnesses.into_iter().collect();
    rep.stats.add(&format!("witnesses[{name}]"), uniq.len() as u64);
    let results: Vec<(Vec<Violation>, Stats)> = uniq
        .par_iter()
        .map(|w| {
            let mut out = vec![];
            let mut st = Stats::default();
            api_check(w, d, &mut out, &mut st);
            (out, st)
        })
        .collect();
    for (vs, st) in results {
        rep.stats.merge(&st);
        rep.violations.extend(vs);
    }
    if let Some(w) = uniq.iter().find(|w| w.len() > 12) {
        rep.stats.sample(json!({"product": name, "witness": w}));
    }
}

const ALPHABET: [&str; 14] = ["a", "1", ":", "/", "?", "#", "[", "]", "@", "%", ".", "-", "é", " "];

fn bounded_strings(maxlen: usize, d: &Dfas, rep: &mut Report) {
    // first symbol distributes the work
    let prefixes: Vec<Vec<usize>> = {
        let mut v = vec![];
        words_upto(ALPHABET.len(), 2.min(maxlen), &mut |w| v.push(w.to_vec()));
        v
    };
    let results: Vec<(Vec<Violation>, Stats)> = prefixes
        .par_iter()
        .map(|pre| {
            let mut out = vec![];
            let mut st = Stats::default();
            let rest = if pre.len() < 2.min(maxlen) { 0 } else { maxlen - pre.len() };
            let head: String = pre.iter().map(|i| ALPHABET[*i]).collect();
            words_upto(ALPHABET.len(), rest, &mut |w| {
                let mut s = head.clone();
                for i in w {
                    s.push_str(ALPHABET[*i]);
                }
                st.inc("bounded_strings");
                let valid = sophia_iri::is_valid_iri_ref(&s);
                let refv = run_dfa(&d.ref_abs, s.as_bytes()) || run_dfa(&d.ref_rel, s.as_bytes());
                let ox = oxiri::IriRef::parse(s.as_str()).is_ok();
                if valid {
                    st.inc("bounded_accepted");
                }
                if valid != refv || (valid && !ox) {
                    // full battery gives the precise signature
                    api_check(&s, d, &mut out, &mut st);
                    if valid && !ox && out.is_empty() {
                        out.push(Violation::new("accepted-but-resolver-rejects", format!("{s:?}"), json!({"kind": "string", "string": s})));
                    }
                } else if valid {
                    // accepted and the resolver's parser agrees: check base conversion cheaply
                    if guarded(|| IriRef::new_unchecked(s.as_str()).as_base().as_str().len()).is_err() {
                        api_check(&s, d, &mut out, &mut st);
                    }
                }
                if !valid && ox {
                    st.inc("resolver_accepts_more_than_validator");
                }
            });
            (out, st)
        })
        .collect();
    for (vs, st) in results {
        rep.stats.merge(&st);
        rep.violations.extend(vs);
    }
}

fn ipv6_skeletons(d: &Dfas, rep: &mut Report) {
    let mut forms: BTreeSet<String> = BTreeSet::new();
    for hexa in ["1", "abcd", "0"] {
        for left in 0..=8usize {
            for right in 0..=8usize {
                for elide in [false, true] {
                    for v4 in [false, true] {
                        for v4txt in ["1.2.3.4", "255.255.255.255", "256.1.1.1", "01.1.1.1"] {
                            if !v4 && v4txt != "1.2.3.4" {
                                continue;
                            }
                            let l: Vec<&str> = (0..left).map(|_| hexa).collect();
                            let mut r: Vec<&str> = (0..right).map(|_| hexa).collect();
                            if v4 {
                                r.push(v4txt);
                            }
                            let s = if elide {
                                format!("{}::{}", l.join(":"), r.join(":"))
                            } else {
                                let mut all = l.clone();
                                all.extend(r.iter());
                                all.join(":")
                            };
                            forms.insert(s);
                        }
                    }
                }
            }
        }
    }
    forms.insert("v1.a".into());
    forms.insert("vF.:".into());
    forms.insert("v.a".into());
    forms.insert("v1.".into());
    let mut out = vec![];
    let mut st = Stats::default();
    for f in &forms {
        for tmpl in ["http://[{}]/", "//[{}]:80", "x://u@[{}]"] {
            let s = tmpl.replace("{}", f);
            api_check(&s, d, &mut out, &mut st);
            st.inc("ipv6_forms");
        }
    }
    rep.stats.merge(&st);
    rep.violations.extend(out);
}

// ---------------------------------------------------------------------------------------------
// resolution

pub fn gen_iris(max_segments: usize, with_scheme: bool) -> Vec<String> {
    let segs = ["", "a", "b", ".", "..", "a:b", "é", "%2e"];
    let mut paths: Vec<String> = vec![String::new()];
    // all sequences of 1..=max segments, rooted and rootless
    let mut seqs: Vec<Vec<usize>> = vec![];
    words_upto(segs.len(), max_segments, &mut |w| {
        if !w.is_empty() {
            seqs.push(w.to_vec())
        }
    });
    for s in &seqs {
        let joined = s.iter().map(|i| segs[*i]).collect::<Vec<_>>().join("/");
        paths.push(joined.clone());
        paths.push(format!("/{joined}"));
    }
    let mut set = BTreeSet::new();
    let schemes: Vec<&str> = if with_scheme { vec!["x:", "http:"] } else { vec![""] };
    for sch in &schemes {
        for auth in ["", "//a", "//a:1", "//"] {
            for p in &paths {
                for q in ["", "?", "?q/x?"] {
                    for f in ["", "#", "#f/?"] {
                        set.insert(format!("{sch}{auth}{p}{q}{f}"));
                    }
                }
            }
        }
    }
    set.into_iter().collect()
}

fn resolution_sig(base: &str, reference: &str, r: &refiri::Resolution, got: &Result<String, String>) -> String {
    // a deviation is a *listed* finding only if it is exactly what the model of the third-party
    // resolver (oxiri) predicts for this pair; anything else is unexplained
    let model = refiri::oxiri_model(base, reference);
    match (got, &model) {
        (Ok(g), Ok(m)) if g == m => format!("resolve:third-party-resolver-deviates-from-rfc3986:{}-reference", r.branch),
        (Err(e), Err(())) if e.starts_with("error") => format!("resolve:third-party-resolver-refuses-result-path-starting-with-two-slashes:{}-reference", r.branch),
        (Err(e), Err(())) if e.starts_with("panic") => format!("resolve:unwrap-of-refused-resolution-panics:{}-reference", r.branch),
        (Ok(_), _) => format!("resolve:unexplained-result:{}-reference", r.branch),
        (Err(e), _) if e.starts_with("panic") => format!("resolve:unexplained-panic:{}-reference", r.branch),
        (Err(_), _) => format!("resolve:unexplained-error:{}-reference", r.branch),
    }
}

fn resolve_pairs(bases: &[String], refs: &[String], rep: &mut Report) {
    let results: Vec<(Vec<Violation>, Stats)> = bases
        .par_iter()
        .map(|base| {
            let mut out: Vec<Violation> = vec![];
            let mut st = Stats::default();
            let mut seen_sigs: BTreeSet<String> = BTreeSet::new();
            let Ok(biri) = Iri::new(base.as_str()) else { return (out, st) };
            let Ok(bbase) = guarded(|| biri.as_base()) else { return (out, st) };
            for r in refs {
                let Ok(rref) = IriRef::new(r.as_str()) else { continue };
                st.inc("resolve_pairs");
                let expected = refiri::resolve(base, r);
                // the 4 ways to resolve
                let g1: Result<String, String> = match guarded(|| biri.resolve(rref)) {
                    Ok(i) => Ok(i.as_str().to_string()),
                    Err(p) => Err(format!("panic: {p}")),
                };
                let g2: Result<String, String> = match guarded(|| bbase.resolve(r.as_str())) {
                    Ok(Ok(i)) => Ok(i.as_str().to_string()),
                    Ok(Err(e)) => Err(format!("error: {e}")),
                    Err(p) => Err(format!("panic: {p}")),
                };
                let mut buf = String::new();
                let g3: Result<String, String> = match guarded(|| bbase.resolve_into(r.as_str(), &mut buf).map(|i| i.as_str().to_string())) {
                    Ok(Ok(i)) => Ok(i),
                    Ok(Err(e)) => Err(format!("error: {e}")),
                    Err(p) => Err(format!("panic: {p}")),
                };
                let g4: Result<String, String> = match guarded(|| IriRef::new_unchecked(base.as_str()).resolve(rref)) {
                    Ok(i) => Ok(i.as_str().to_string()),
                    Err(p) => Err(format!("panic: {p}")),
                };
                for (api, got) in [("Iri::resolve(IriRef)", &g1), ("BaseIri::resolve(&str)", &g2), ("BaseIri::resolve_into(&str)", &g3), ("IriRef::resolve(IriRef)", &g4)] {
                    st.inc("validated");
                    let ok = got.as_ref().ok() == Some(&expected.result);
                    if !ok {
                        let sig = resolution_sig(base, r, &expected, got);
                        if seen_sigs.insert(format!("{sig}/{api}")) || out.len() < 3 {
                            out.push(Violation::new(
                                sig,
                                format!("{api}: base {base:?} + reference {r:?} gives {got:?}, RFC 3986 5.2 gives {:?}", expected.result),
                                json!({"kind": "resolve", "base": base, "reference": r}),
                            ));
                        } else {
                            st.inc("resolve_disagreements_not_listed");
                        }
                    } else if !sophia_iri::is_absolute_iri_ref(&expected.result) {
                        out.push(Violation::new("resolve:result-not-an-accepted-iri", format!("{base:?} + {r:?} = {:?} which Iri::new rejects", expected.result), json!({"kind": "resolve", "base": base, "reference": r})));
                    }
                }
                st.outcome(expected.branch);
            }
            (out, st)
        })
        .collect();
    for (vs, st) in results {
        rep.stats.merge(&st);
        rep.violations.extend(vs);
    }
}

fn dfas() -> Dfas {
    let abnf = refiri::abnf();
    Dfas {
        code_abs: build_dfa(sophia_iri::IRI_REGEX_SRC),
        code_rel: build_dfa(sophia_iri::IRELATIVE_REF_REGEX_SRC),
        ref_abs: build_dfa(&abnf.iri),
        ref_rel: build_dfa(&abnf.irelative_ref),
    }
}

/// the RFC 3986 section 5.4 examples validate the reference resolver itself
fn validate_reference() {
    let base = "http://a/b/c/d;p?q";
    let table = [
        ("g:h", "g:h"), ("g", "http://a/b/c/g"), ("./g", "http://a/b/c/g"), ("g/", "http://a/b/c/g/"), ("/g", "http://a/g"),
        ("//g", "http://g"), ("?y", "http://a/b/c/d;p?y"), ("g?y", "http://a/b/c/g?y"), ("#s", "http://a/b/c/d;p?q#s"),
        ("g#s", "http://a/b/c/g#s"), ("g?y#s", "http://a/b/c/g?y#s"), (";x", "http://a/b/c/;x"), ("g;x", "http://a/b/c/g;x"),
        ("g;x?y#s", "http://a/b/c/g;x?y#s"), ("", "http://a/b/c/d;p?q"), (".", "http://a/b/c/"), ("./", "http://a/b/c/"),
        ("..", "http://a/b/"), ("../", "http://a/b/"), ("../g", "http://a/b/g"), ("../..", "http://a/"), ("../../", "http://a/"),
        ("../../g", "http://a/g"), ("../../../g", "http://a/g"), ("../../../../g", "http://a/g"), ("/./g", "http://a/g"),
        ("/../g", "http://a/g"), ("g.", "http://a/b/c/g."), (".g", "http://a/b/c/.g"), ("g..", "http://a/b/c/g.."),
        ("..g", "http://a/b/c/..g"), ("./../g", "http://a/b/g"), ("./g/.", "http://a/b/c/g/"), ("g/./h", "http://a/b/c/g/h"),
        ("g/../h", "http://a/b/c/h"), ("g;x=1/./y", "http://a/b/c/g;x=1/y"), ("g;x=1/../y", "http://a/b/c/y"),
        ("g?y/./x", "http://a/b/c/g?y/./x"), ("g?y/../x", "http://a/b/c/g?y/../x"), ("g#s/./x", "http://a/b/c/g#s/./x"),
        ("g#s/../x", "http://a/b/c/g#s/../x"), ("http:g", "http:g"),
    ];
    for (r, exp) in table {
        let got = refiri::resolve(base, r).result;
        if got != exp {
            eprintln!("ENGINE ERROR: reference resolver fails RFC 3986 5.4 example {r:?}: {got:?} != {exp:?}");
            std::process::exit(2);
        }
    }
}

pub fn run(tier: Tier) -> Report {
    let mut rep = Report::new("C09", tier);
    validate_reference();
    let d = dfas();
    explore_product("IRI", &d.code_abs, &d.ref_abs, &d, &mut rep);
    explore_product("irelative-ref", &d.code_rel, &d.ref_rel, &d, &mut rep);
    let maxlen = tier.pick(5, 7);
    bounded_strings(maxlen, &d, &mut rep);
    ipv6_skeletons(&d, &mut rep);
    let nseg = tier.pick(2, 3);
    let bases = gen_iris(nseg, true);
    let mut refs = gen_iris(nseg, false);
    refs.extend(gen_iris(1, true));
    let bases: Vec<String> = bases.into_iter().filter(|b| Iri::new(b.as_str()).is_ok()).collect();
    // quick: every 4th base with <= 2 segments (a complete slice chosen by the seed), all references;
    // thorough: every base with <= 2 segments plus every 16th base with 3 segments
    let bases: Vec<String> = if tier == Tier::Quick {
        let k = (rep.seed % 4) as usize;
        bases.into_iter().enumerate().filter(|(i, _)| i % 4 == k).map(|(_, b)| b).collect()
    } else {
        let small: BTreeSet<String> = gen_iris(2, true).into_iter().collect();
        let k = (rep.seed % 16) as usize;
        bases.into_iter().enumerate().filter(|(i, b)| small.contains(b) || i % 16 == k).map(|(_, b)| b).collect()
    };
    rep.stats.add("resolve_bases", bases.len() as u64);
    rep.stats.add("resolve_references", refs.len() as u64);
    resolve_pairs(&bases, &refs, &mut rep);
    let accepted = rep.stats.get("accepted") + rep.stats.get("bounded_accepted");
    rep.stats.add("nontrivial", accepted);
    rep.stats.sample(json!({"base": bases.get(bases.len() / 2), "reference": refs.get(refs.len() / 3)}));
    rep.rule = format!(
        "(1) all reachable states of the product of the DFA determinised from the crate's regex source strings and the DFA of the RFC 3987 ABNF transcription (IRI and irelative-ref), one to three witness strings per product edge replayed against is_absolute_iri_ref/is_relative_iri_ref/is_valid_iri_ref/Iri::new/IriRef::new/as_base/to_base/BaseIri(Ref)::new/Namespace::get; (2) all strings of length <= {maxlen} over {:?}; (3) all IPv6/IPvFuture literal skeletons; (4) all pairs of generated bases x references (<= {nseg} path segments over ['', a, b, ., .., a:b, é, %2e], 4 authorities, 3 queries, 3 fragments) resolved through 4 API paths and compared with RFC 3986 5.2; non-trivial = strings accepted as IRI references",
        ALPHABET
    );
    rep.bounds = json!({"string_length": maxlen, "alphabet": ALPHABET, "path_segments": nseg, "product": "unbounded (all strings)"});
    rep.assumptions = vec![
        "regex-automata determinisation of the crate's regex source equals the regex crate's matching (re-validated by replaying every witness through the real API)".into(),
        "the ABNF transcription in model/refiri.rs is RFC 3987 (cross-checked against oxiri on the bounded enumeration)".into(),
        "RFC 3986 5.2 reference resolver validated against the 42 examples of section 5.4".into(),
    ];
    rep
}

pub fn replay(case: &Value) -> Vec<Violation> {
    let d = dfas();
    let mut out = vec![];
    let mut st = Stats::default();
    match case["kind"].as_str() {
        Some("string") => api_check(case["string"].as_str().unwrap_or(""), &d, &mut out, &mut st),
        Some("resolve") => {
            let mut rep = Report::new("C09", Tier::Quick);
            resolve_pairs(&[case["base"].as_str().unwrap_or("").to_string()], &[case["reference"].as_str().unwrap_or("").to_string()], &mut rep);
            out = rep.violations;
        }
        _ => out.push(Violation::new("replay-error", "unknown case kind", case.clone())),
    }
    out
}

#[allow(unused)]
fn unused(_: BTreeMap<u8, u8>) {}
