//! C19 — the local resource loader never reads outside its configured directories (E4).
use crate::fw::*;
use serde_json::{Value, json};
use sophia_api::prelude::*;
use sophia_iri::Iri;
use sophia_resource::loader::verif::take_log;
use sophia_resource::{Loader, LocalLoader};
use std::collections::BTreeSet;
use std::path::{Component, Path, PathBuf};
use std::sync::Arc;

const NS1: &str = "http://ex.org/ns/";
const NS2: &str = "http://ex.org/other/";

struct Env {
    root: PathBuf,
    r1: PathBuf,
    r1sub: PathBuf,
    r2: PathBuf,
    secret_abs: String,
}

fn write(p: &Path, content: &str) {
    if let Some(d) = p.parent() {
        std::fs::create_dir_all(d).expect("mkdir");
    }
    std::fs::write(p, content).expect("write");
}

fn make_env() -> Env {
    // a fixed location (the absolute path of the outside file is part of some IRIs, and replay
    // files must stay valid), protected by a lock directory holding the pid of its owner
    let root = std::env::temp_dir().join("mc-c19-env");
    let lock = std::env::temp_dir().join("mc-c19-env.lock");
    let t0 = std::time::Instant::now();
    loop {
        if std::fs::create_dir(&lock).is_ok() {
            let _ = std::fs::write(lock.join("pid"), std::process::id().to_string());
            break;
        }
        let owner = std::fs::read_to_string(lock.join("pid")).ok().and_then(|p| p.trim().parse::<u32>().ok());
        let alive = owner.map(|p| Path::new(&format!("/proc/{p}")).exists()).unwrap_or(t0.elapsed().as_secs() < 5);
        if !alive {
            let _ = std::fs::remove_dir_all(&lock);
            continue;
        }
        if t0.elapsed().as_secs() > 1800 {
            eprintln!("ENGINE ERROR: cannot acquire {lock:?}");
            std::process::exit(2);
        }
        std::thread::sleep(std::time::Duration::from_millis(300));
    }
    let _ = std::fs::remove_dir_all(&root);
    let root = {
        std::fs::create_dir_all(&root).expect("mkdir root");
        root.canonicalize().expect("canonicalize root")
    };
    let r1 = root.join("R1");
    let r1sub = r1.join("sub");
    let r2 = root.join("R2");
    for (p, c) in [
        (r1.join("a.ttl"), "<x:file> <x:is> \"R1/a.ttl\" ."),
        (r1.join("a"), "R1/a"),
        (r1.join("b.nt"), "<x:file> <x:is> \"R1/b.nt\" ."),
        (r1sub.join("a.ttl"), "<x:file> <x:is> \"R1/sub/a.ttl\" ."),
        (r1sub.join("b"), "R1/sub/b"),
        (r2.join("a.ttl"), "<x:file> <x:is> \"R2/a.ttl\" ."),
        (r2.join("sub").join("a.ttl"), "<x:file> <x:is> \"R2/sub/a.ttl\" ."),
        (root.join("secret.ttl"), "<x:file> <x:is> \"SECRET secret.ttl\" ."),
        (root.join("secret"), "SECRET secret"),
        (root.join("a.ttl"), "<x:file> <x:is> \"SECRET a.ttl\" ."),
        (root.join("R1x").join("a.ttl"), "<x:file> <x:is> \"SECRET R1x/a.ttl\" ."),
        // siblings named after the configured directories (reachable by path-level extension tricks)
        (root.join("R1.ttl"), "<x:file> <x:is> \"SECRET R1.ttl\" ."),
        (root.join("R1.nt"), "<x:file> <x:is> \"SECRET R1.nt\" ."),
        (root.join("R2.ttl"), "<x:file> <x:is> \"SECRET R2.ttl\" ."),
        (r1.join("sub.ttl"), "<x:file> <x:is> \"R1/sub.ttl\" ."),
    ] {
        write(&p, c);
    }
    let secret_abs = root.join("secret.ttl").display().to_string();
    Env { root, r1, r1sub, r2, secret_abs }
}

/// lexical normalisation ("." and ".." resolved without touching the file system)
fn lexical(p: &Path) -> PathBuf {
    let mut out = PathBuf::new();
    for c in p.components() {
        match c {
            Component::ParentDir => {
                out.pop();
            }
            Component::CurDir => {}
            other => out.push(other.as_os_str()),
        }
    }
    out
}
fn inside(p: &Path, dir: &Path) -> bool {
    let l = lexical(p);
    let by_lex = l.starts_with(dir);
    match p.canonicalize() {
        Ok(c) => c.starts_with(dir) && by_lex,
        Err(_) => by_lex,
    }
}

type Config = Vec<(&'static str, fn(&Env) -> PathBuf)>;
fn configs() -> Vec<(&'static str, Config)> {
    vec![
        ("ns1->R1", vec![(NS1, |e| e.r1.clone())]),
        ("ns1->R1, ns1+sub/->R2", vec![(NS1, |e| e.r1.clone()), ("http://ex.org/ns/sub/", |e| e.r2.clone())]),
        ("ns1+sub/->R2, ns1->R1", vec![("http://ex.org/ns/sub/", |e| e.r2.clone()), (NS1, |e| e.r1.clone())]),
        ("ns1->R1/sub, ns2->R1", vec![(NS1, |e| e.r1sub.clone()), (NS2, |e| e.r1.clone())]),
    ]
}

fn segments(env: &Env) -> Vec<String> {
    vec!["..".into(), ".".into(), "".into(), "a".into(), "sub".into(), "a.ttl".into(), "secret".into(), "%2e%2e".into(), "%2f".into(), "..%2f".into(), "R1x".into(), env.secret_abs.clone(), env.secret_abs.trim_start_matches('/').to_string()]
}

fn iris(env: &Env, maxseg: usize) -> Vec<String> {
    let segs = segments(env);
    let mut set = BTreeSet::new();
    for ns in [NS1, NS2, "http://ex.org/nsx/", "http://ex.org/n", "http://ex.org/ns"] {
        words_upto(segs.len(), maxseg, &mut |w| {
            let path = w.iter().map(|i| segs[*i].as_str()).collect::<Vec<_>>().join("/");
            for ext in ["", ".ttl"] {
                for tail in ["", "#frag", "?q", "?q#frag"] {
                    let iri = format!("{ns}{path}{ext}{tail}");
                    if Iri::new(iri.as_str()).is_ok() {
                        set.insert(iri);
                    }
                }
            }
        });
    }
    // very long paths
    let long = "a".repeat(4096);
    set.insert(format!("{NS1}{long}"));
    set.insert(format!("{NS1}../{long}/../secret.ttl"));
    set.insert(format!("{NS1}sub/{long}/../../../secret"));
    set.into_iter().collect()
}

fn check_access(env: &Env, cfg: &Config, cfg_name: &str, iri: &str, via: &str, result: Result<Vec<u8>, String>, log: Vec<PathBuf>, st: &mut Stats, out: &mut Vec<Violation>) {
    let case = json!({"config": cfg_name, "iri": iri, "via": via});
    // directories whose namespace prefixes the IRI (fragment removed, as the loader does)
    let bare = iri.split('#').next().unwrap();
    let allowed: Vec<PathBuf> = cfg.iter().filter(|(ns, _)| bare.starts_with(ns)).map(|(_, d)| d(env)).collect();
    st.inc("validated");
    for p in &log {
        st.inc("paths_probed");
        if !allowed.iter().any(|d| inside(p, d)) {
            let kind = if p.exists() { "existing-file" } else { "probe" };
            out.push(Violation::new(
                format!("path-outside-configured-directory:{kind}"),
                format!("[{cfg_name}] {via} {iri:?} handed {:?} to the file system; allowed directories: {allowed:?}", p),
                case.clone(),
            ));
        }
    }
    match result {
        Err(e) if e.starts_with("panic") => out.push(Violation::new("panic", format!("[{cfg_name}] {via} {iri:?}: {e}"), case)),
        Err(_) => st.outcome("error"),
        Ok(bytes) => {
            st.inc("nontrivial");
            let txt = String::from_utf8_lossy(&bytes).to_string();
            if txt.contains("SECRET") {
                out.push(Violation::new("content-of-outside-file-returned", format!("[{cfg_name}] {via} {iri:?} returned {txt:?}"), case.clone()));
                st.outcome("secret");
            } else {
                st.outcome("ok-inside");
            }
            if allowed.is_empty() {
                out.push(Violation::new("content-for-unconfigured-namespace", format!("[{cfg_name}] {via} {iri:?} returned {txt:?}"), case));
            }
        }
    }
}

fn run_all(tier: Tier, only: Option<(&str, &str, &str)>, st: &mut Stats, out: &mut Vec<Violation>) {
    let env = make_env();
    let maxseg = tier.pick(3, 4);
    let all = iris(&env, maxseg);
    st.add("iris", all.len() as u64);
    for (cfg_name, cfg) in configs() {
        if let Some((c, _, _)) = only {
            if c != cfg_name {
                continue;
            }
        }
        let caches = cfg.iter().map(|(ns, d)| (Iri::new_unchecked(sophia_api::MownStr::from(ns.to_string())), d(&env))).collect();
        let loader = match LocalLoader::new(caches) {
            Ok(l) => l.arced(),
            Err(e) => {
                eprintln!("ENGINE ERROR: cannot build loader: {e}");
                std::process::exit(2);
            }
        };
        // (1) direct
        for iri in &all {
            if let Some((_, i, via)) = only {
                if i != iri || via != "get" {
                    continue;
                }
            }
            let _ = take_log();
            let r = match guarded(|| loader.get(Iri::new_unchecked(iri.as_str()))) {
                Ok(Ok((bytes, _ctype))) => Ok(bytes),
                Ok(Err(e)) => Err(format!("error: {e}")),
                Err(p) => Err(format!("panic: {p}")),
            };
            let log = take_log();
            st.inc("states");
            check_access(&env, &cfg, cfg_name, iri, "get", r, log, st, out);
        }
        // (2) as links followed from loaded data: an index file inside the first directory
        let idx_dir = cfg[0].1(&env);
        let idx_ns = cfg[0].0;
        let links: Vec<&String> = all.iter().filter(|i| !i.contains('#')).collect();
        let mut doc = String::new();
        for (k, l) in links.iter().enumerate() {
            doc.push_str(&format!("<> <x:l{k}> <{l}> .\n"));
        }
        write(&idx_dir.join("index.ttl"), &doc);
        let _ = take_log();
        let idx_iri = format!("{idx_ns}index.ttl");
        let res = guarded(|| loader.get_resource::<_, sophia_inmem::graph::FastGraph>(Iri::new_unchecked(idx_iri.as_str())));
        let _ = take_log();
        match res {
            Ok(Ok(resource)) => {
                for (k, l) in links.iter().enumerate() {
                    if let Some((_, i, via)) = only {
                        if i != l.as_str() || via != "link" {
                            continue;
                        }
                    }
                    let pred = Iri::new_unchecked(format!("x:l{k}"));
                    let _ = take_log();
                    let r = match guarded(|| resource.get_any_resource(pred.as_ref())) {
                        Ok(Ok(Some(sub))) => {
                            // the graph of the linked resource was loaded: report its content
                            let mut s = String::new();
                            for t in sophia_api::graph::Graph::triples(sub.graph().as_ref()) {
                                if let Ok(t) = t {
                                    s.push_str(&format!("{:?} ", t.o().lexical_form().map(|l| l.to_string())));
                                }
                            }
                            Ok(s.into_bytes())
                        }
                        Ok(Ok(None)) => Err("error: no such link".to_string()),
                        Ok(Err(e)) => Err(format!("error: {e}")),
                        Err(p) => Err(format!("panic: {p}")),
                    };
                    let log = take_log();
                    st.inc("states");
                    st.inc("links_followed");
                    check_access(&env, &cfg, cfg_name, l, "link", r, log, st, out);
                }
            }
            other => {
                eprintln!("ENGINE ERROR: cannot load the index resource: {:?}", other.map(|r| r.map(|_| "resource")));
                let _ = std::fs::remove_dir_all(&env.root);
                let _ = std::fs::remove_dir_all(std::env::temp_dir().join("mc-c19-env.lock"));
                std::process::exit(2);
            }
        }
        let _ = std::fs::remove_file(idx_dir.join("index.ttl"));
    }
    let _ = std::fs::remove_dir_all(&env.root);
    let _ = std::fs::remove_dir_all(std::env::temp_dir().join("mc-c19-env.lock"));
}

pub fn run(tier: Tier) -> Report {
    let mut rep = Report::new("C19", tier);
    let mut st = Stats::default();
    let mut out = vec![];
    run_all(tier, None, &mut st, &mut out);
    rep.stats.merge(&st);
    rep.stats.add("transitions", rep.stats.get("paths_probed"));
    rep.stats.sample(json!({"config": "ns1->R1", "iri": format!("{NS1}sub/../../secret.ttl"), "via": "get"}));
    rep.violations = out;
    rep.rule = format!(
        "a temporary directory tree (roots R1, R1/sub, R2; marker files outside the roots) x {} namespace->directory configurations (nested, overlapping in both orders, two namespaces) x every valid IRI made of one of 5 namespaces/near-namespaces + a path of <= {} segments over ['..', '.', '', a, sub, a.ttl, secret, %2e%2e, %2f, ..%2f, R1x, <absolute path of the secret>, <same without leading slash>] with/without .ttl extension, fragment and query, plus 4 KiB segments; each IRI is loaded directly (Loader::get) and as a link followed from a loaded Turtle file (Resource::get_any_resource); every path handed to the file system (cfg hook log) must lie, lexically and after canonicalisation, inside a directory whose namespace prefixes the IRI; returned content must not be a marker file; non-trivial = accesses that returned content",
        configs().len(),
        tier.pick(3, 4)
    );
    rep.bounds = json!({"segments": tier.pick(3, 4), "configs": configs().len()});
    rep.assumptions = vec!["no symbolic links inside the configured directories (the check canonicalises existing paths, so a symlink created by the loader itself would be noticed)".into()];
    rep
}

pub fn replay(case: &Value) -> Vec<Violation> {
    let mut st = Stats::default();
    let mut out = vec![];
    let (c, i, v) = (case["config"].as_str().unwrap_or(""), case["iri"].as_str().unwrap_or(""), case["via"].as_str().unwrap_or("get"));
    // the secret's absolute path depends on the process id: rebuild the IRI for this run
    run_all(Tier::Thorough, Some((c, i, v)), &mut st, &mut out);
    out
}
