//! C20 — native Rust values map to valid typed literals and back without loss (E4).
use crate::fw::*;
use crate::model::terms::*;
use rayon::prelude::*;
use serde_json::{Value, json};
use sophia_api::parser::TripleParser;
use sophia_api::prelude::*;
use sophia_api::term::{FromTerm, SimpleTerm, TryFromTerm};
use sophia_term::ArcTerm;

// ---------------------------------------------------------------------------------------------
// XSD lexical spaces (XML Schema Datatypes 1.1)

pub fn is_integer_lex(s: &str) -> bool {
    let b = s.strip_prefix(['+', '-']).unwrap_or(s);
    !b.is_empty() && b.bytes().all(|c| c.is_ascii_digit())
}
pub fn is_decimal_lex(s: &str) -> bool {
    let b = s.strip_prefix(['+', '-']).unwrap_or(s);
    let (i, f) = match b.split_once('.') {
        Some((i, f)) => (i, Some(f)),
        None => (b, None),
    };
    let digits = |x: &str| x.bytes().all(|c| c.is_ascii_digit());
    match f {
        None => !i.is_empty() && digits(i),
        Some(f) => digits(i) && digits(f) && !(i.is_empty() && f.is_empty()),
    }
}
pub fn is_double_lex(s: &str) -> bool {
    if matches!(s, "INF" | "+INF" | "-INF" | "NaN") {
        return true;
    }
    let (m, e) = match s.split_once(['e', 'E']) {
        Some((m, e)) => (m, Some(e)),
        None => (s, None),
    };
    is_decimal_lex(m) && e.map(is_integer_lex).unwrap_or(true)
}
pub fn is_boolean_lex(s: &str) -> bool {
    matches!(s, "true" | "false" | "1" | "0")
}
fn integer_value(s: &str) -> Option<i128> {
    if !is_integer_lex(s) || s.len() > 36 {
        return None;
    }
    s.strip_prefix('+').unwrap_or(s).parse::<i128>().ok()
}
fn double_value(s: &str) -> Option<f64> {
    if !is_double_lex(s) {
        return None;
    }
    match s {
        "INF" | "+INF" => Some(f64::INFINITY),
        "-INF" => Some(f64::NEG_INFINITY),
        "NaN" => Some(f64::NAN),
        _ => s.parse::<f64>().ok(),
    }
}

const INT_TYPES: [&str; 13] = [
    "integer", "long", "int", "short", "byte", "unsignedLong", "unsignedInt", "unsignedShort", "unsignedByte", "nonNegativeInteger", "nonPositiveInteger", "negativeInteger", "positiveInteger",
];
fn xsd(l: &str) -> String {
    format!("{XSD}{l}")
}

fn same_f64(a: f64, b: f64) -> bool {
    (a.is_nan() && b.is_nan()) || a.to_bits() == b.to_bits()
}

// ---------------------------------------------------------------------------------------------
// forward direction

fn nt_round_trip(lex: &str, dt: &str) -> Option<ATerm> {
    let t = ATerm::typed(lex, dt);
    let doc = format!("<x:s> <x:p> {} .\n", t.nq());
    let mut got = None;
    let _ = sophia_turtle::parser::nt::NTriplesParser {}.parse_str(&doc).for_each_triple(|tr| {
        got = Some(ATerm::from_term(tr.o()));
    });
    got
}

macro_rules! forward_int {
    ($fname:ident, $ty:ty) => {
        fn $fname(v: $ty, heavy: bool, st: &mut Stats, out: &mut Vec<Violation>) {
            let case = json!({"kind": "forward", "type": stringify!($ty), "value": v.to_string()});
            st.inc("validated");
            let r = guarded(|| {
                let a = ATerm::from_term(v);
                let back = <$ty>::try_from_term(v).ok();
                (a, back)
            });
            let (a, back) = match r {
                Ok(x) => x,
                Err(p) => {
                    out.push(Violation::new(format!("forward-panic:{}", stringify!($ty)), p, case));
                    return;
                }
            };
            let ATerm::Lit(dt, lang, lex) = &a else {
                out.push(Violation::new(format!("forward-not-a-literal:{}", stringify!($ty)), format!("{a:?}"), case));
                return;
            };
            if *dt != xsd("integer") || lang.is_some() || integer_value(lex) != Some(v as i128) {
                out.push(Violation::new(format!("forward-lexical:{}", stringify!($ty)), format!("{v} is the literal {}", a.nq()), case.clone()));
            }
            if back != Some(v) {
                out.push(Violation::new(format!("forward-round-trip:{}", stringify!($ty)), format!("{v} -> {} -> {back:?}", a.nq()), case.clone()));
            }
            if heavy {
                // other representations and a serialisation round trip
                let s: SimpleTerm<'static> = v.into_term();
                let ar: ArcTerm = v.into_term();
                let nt = nt_round_trip(lex, dt);
                let b1 = <$ty>::try_from_term(&s).ok();
                let b2 = <$ty>::try_from_term(&ar).ok();
                let b3 = nt.as_ref().and_then(|t| <$ty>::try_from_term(t.to_simple()).ok());
                st.add("validated", 3);
                if b1 != Some(v) || b2 != Some(v) || b3 != Some(v) {
                    out.push(Violation::new(
                        format!("forward-round-trip-other-representation:{}", stringify!($ty)),
                        format!("{v}: via SimpleTerm {b1:?}, via ArcTerm {b2:?}, via N-Triples {b3:?}"),
                        case,
                    ));
                }
            }
        }
    };
}
forward_int!(forward_i32, i32);
forward_int!(forward_isize, isize);
forward_int!(forward_usize, usize);

fn forward_f64(v: f64, heavy: bool, st: &mut Stats, out: &mut Vec<Violation>) {
    let case = json!({"kind": "forward", "type": "f64", "value": format!("{:#018x}", v.to_bits())});
    st.inc("validated");
    let r = guarded(|| (ATerm::from_term(v), f64::try_from_term(v).ok()));
    let (a, back) = match r {
        Ok(x) => x,
        Err(p) => {
            out.push(Violation::new("forward-panic:f64", p, case));
            return;
        }
    };
    let ATerm::Lit(dt, lang, lex) = &a else {
        out.push(Violation::new("forward-not-a-literal:f64", format!("{a:?}"), case));
        return;
    };
    let class = if v.is_nan() {
        "nan"
    } else if v.is_infinite() {
        "infinite"
    } else {
        "finite"
    };
    if *dt != xsd("double") || lang.is_some() || !is_double_lex(lex) {
        out.push(Violation::new(format!("forward-lexical:f64:{class}"), format!("{v:e} is the literal {}, whose lexical form is not in the lexical space of xsd:double", a.nq()), case.clone()));
    } else if !double_value(lex).map(|x| same_f64(x, v)).unwrap_or(false) {
        out.push(Violation::new(format!("forward-value:f64:{class}"), format!("{v:e} is the literal {}, which denotes {:?}", a.nq(), double_value(lex)), case.clone()));
    }
    if !back.map(|b| same_f64(b, v)).unwrap_or(false) {
        out.push(Violation::new(format!("forward-round-trip:f64:{class}"), format!("{v:e} -> {} -> {back:?}", a.nq()), case.clone()));
    }
    if heavy {
        let s: SimpleTerm<'static> = v.into_term();
        let ar: ArcTerm = v.into_term();
        let nt = nt_round_trip(lex, dt);
        let b1 = f64::try_from_term(&s).ok();
        let b2 = f64::try_from_term(&ar).ok();
        let b3 = nt.as_ref().and_then(|t| f64::try_from_term(t.to_simple()).ok());
        st.add("validated", 3);
        let ok = |b: Option<f64>| b.map(|b| same_f64(b, v)).unwrap_or(false);
        if !ok(b1) || !ok(b2) || !ok(b3) {
            out.push(Violation::new(format!("forward-round-trip-other-representation:f64:{class}"), format!("{v:e}: via SimpleTerm {b1:?}, via ArcTerm {b2:?}, via N-Triples {b3:?}"), case));
        }
    }
}

fn structured_i64() -> Vec<i128> {
    let mut v: Vec<i128> = vec![];
    for k in 0..=64u32 {
        for d in [-1i128, 0, 1] {
            v.push((1i128 << k) + d);
            v.push(-(1i128 << k) + d);
        }
    }
    let mut p: i128 = 1;
    for _ in 0..=19 {
        for d in [-1i128, 0, 1] {
            v.push(p + d);
            v.push(-p + d);
        }
        p *= 10;
    }
    v.sort();
    v.dedup();
    v
}

fn f64_grid() -> Vec<f64> {
    let mut mant: Vec<u64> = vec![0, 1, (1 << 52) - 1, (1 << 52) - 2, 1 << 51, (1 << 51) - 1, (1 << 51) + 1, 0x000F_FFFF_FFFF_FFFE, 0x0005_5555_5555_5555, 0x000A_AAAA_AAAA_AAAA, 0x0009_9999_9999_999A, 0x0003_3333_3333_3333];
    for b in 0..52 {
        mant.push(1 << b);
    }
    for b in (0..52).step_by(2) {
        mant.push(((1u64 << 52) - 1) ^ (1 << b));
    }
    // 17-significant-digit boundary cases
    for x in [0.1f64, 0.2, 0.3, 1.0 / 3.0, 5e-324, 1.7976931348623157e308, 2.2250738585072014e-308, 9007199254740993.0, 123456789012345680.0, 1e21, 1e22, 1e23, 9.5e-7, 1e-7] {
        mant.push(x.to_bits() & ((1 << 52) - 1));
    }
    mant.sort();
    mant.dedup();
    let mut v = vec![];
    for sign in [0u64, 1] {
        for exp in 0..2048u64 {
            for m in &mant {
                v.push(f64::from_bits((sign << 63) | (exp << 52) | m));
            }
        }
    }
    v
}

// ---------------------------------------------------------------------------------------------
// reverse direction

const LEX_ALPHABET: [&str; 17] = ["+", "-", "0", "1", "9", ".", "e", "E", " ", "I", "N", "F", "a", "n", "i", "f", "_"];

fn datatypes() -> Vec<String> {
    let mut v: Vec<String> = INT_TYPES.iter().map(|t| xsd(t)).collect();
    v.extend([xsd("decimal"), xsd("double"), xsd("float"), xsd("boolean"), xsd("string"), "http://example.org/dt".to_string()]);
    v
}

/// what a literal (lex, datatype) denotes, as far as native conversions are concerned
enum Den {
    Int(i128),
    Num(f64),
    /// xsd:float: the value rounded to f32 first, or directly to f64
    Float(f64, f64),
    Bool(bool),
    Nothing,
}
fn denotation(lex: &str, dt: &str) -> Den {
    let local = dt.strip_prefix(XSD).unwrap_or("");
    if INT_TYPES.contains(&local) {
        integer_value(lex).map(Den::Int).unwrap_or(Den::Nothing)
    } else if local == "decimal" {
        if is_decimal_lex(lex) { lex.parse::<f64>().map(Den::Num).unwrap_or(Den::Nothing) } else { Den::Nothing }
    } else if local == "double" {
        double_value(lex).map(Den::Num).unwrap_or(Den::Nothing)
    } else if local == "float" {
        match double_value(lex) {
            Some(d) => {
                let f = match lex {
                    "INF" | "+INF" => f32::INFINITY,
                    "-INF" => f32::NEG_INFINITY,
                    "NaN" => f32::NAN,
                    _ => lex.parse::<f32>().unwrap_or(f32::NAN),
                };
                Den::Float(f as f64, d)
            }
            None => Den::Nothing,
        }
    } else if local == "boolean" {
        match lex {
            "true" | "1" => Den::Bool(true),
            "false" | "0" => Den::Bool(false),
            _ => Den::Nothing,
        }
    } else {
        Den::Nothing
    }
}

fn reverse_one(lex: &str, dt: &str, repr: u8, st: &mut Stats, out: &mut Vec<Violation>) {
    let a = ATerm::typed(lex, dt);
    let case = json!({"kind": "reverse", "lex": lex, "datatype": dt, "representation": repr});
    let den = denotation(lex, dt);
    let local = dt.strip_prefix(XSD).unwrap_or("other");
    macro_rules! conv {
        ($ty:ty) => {{
            st.inc("validated");
            match repr {
                0 => guarded(|| <$ty>::try_from_term(a.to_simple()).ok()),
                1 => guarded(|| <$ty>::try_from_term(ArcTerm::from_term(a.to_simple())).ok()),
                _ => guarded(|| nt_round_trip(lex, dt).and_then(|t| <$ty>::try_from_term(t.to_simple()).ok())),
            }
        }};
    }
    macro_rules! int_target {
        ($ty:ty) => {{
            match conv!($ty) {
                Err(p) => out.push(Violation::new(format!("reverse-panic:{}", stringify!($ty)), format!("{} -> {}: {p}", a.nq(), stringify!($ty)), case.clone())),
                Ok(None) => st.inc("reverse_refused"),
                Ok(Some(v)) => {
                    st.inc("reverse_ok");
                    let ok = matches!(den, Den::Int(d) if d == v as i128) || matches!(den, Den::Num(d) if d == v as f64 && d.fract() == 0.0);
                    if !ok {
                        out.push(Violation::new(
                            format!("reverse-wrong-or-undenoted:{}:{local}", stringify!($ty)),
                            format!("{} converts to {} = {v}, but that is not what the literal denotes", a.nq(), stringify!($ty)),
                            case.clone(),
                        ));
                    }
                }
            }
        }};
    }
    int_target!(i32);
    int_target!(isize);
    int_target!(usize);
    match conv!(f64) {
        Err(p) => out.push(Violation::new("reverse-panic:f64", format!("{}: {p}", a.nq()), case.clone())),
        Ok(None) => st.inc("reverse_refused"),
        Ok(Some(v)) => {
            st.inc("reverse_ok");
            let ok = match den {
                Den::Num(d) => same_f64(d, v) || (d == 0.0 && v == 0.0 && d.is_sign_negative() == v.is_sign_negative()),
                Den::Float(f, d) => same_f64(f, v) || same_f64(d, v),
                Den::Int(i) => (i as f64) == v,
                _ => false,
            };
            if !ok {
                let spelled = if lex.to_ascii_lowercase().contains("inf") || lex.to_ascii_lowercase().contains("nan") { "special-value-spelling" } else if local == "decimal" { "decimal-with-exponent" } else { "other" };
                out.push(Violation::new(format!("reverse-wrong-or-undenoted:f64:{local}:{spelled}"), format!("{} converts to f64 = {v:e}, but the lexical form is not in the lexical space of the datatype (or denotes another value)", a.nq()), case.clone()));
            }
        }
    }
    match conv!(bool) {
        Err(p) => out.push(Violation::new("reverse-panic:bool", format!("{}: {p}", a.nq()), case.clone())),
        Ok(None) => st.inc("reverse_refused"),
        Ok(Some(v)) => {
            st.inc("reverse_ok");
            if !matches!(den, Den::Bool(b) if b == v) {
                out.push(Violation::new(format!("reverse-wrong-or-undenoted:bool:{local}"), format!("{} converts to bool = {v}", a.nq()), case.clone()));
            }
        }
    }
}

pub fn run(tier: Tier) -> Report {
    let mut rep = Report::new("C20", tier);
    let mut st = Stats::default();
    let mut out: Vec<Violation> = vec![];
    // --- forward
    for b in [true, false] {
        st.inc("validated");
        let a = ATerm::from_term(b);
        let ok = a == ATerm::typed(if b { "true" } else { "false" }, &xsd("boolean")) && bool::try_from_term(b).ok() == Some(b) && bool::try_from_term(a.to_simple()).ok() == Some(b);
        if !ok {
            out.push(Violation::new("forward:bool", format!("{b} is {}", a.nq()), json!({"kind": "forward", "type": "bool", "value": b.to_string()})));
        }
    }
    let structured = structured_i64();
    for v in &structured {
        if let Ok(x) = i32::try_from(*v) {
            forward_i32(x, true, &mut st, &mut out);
        }
        if let Ok(x) = isize::try_from(*v) {
            forward_isize(x, true, &mut st, &mut out);
        }
        if let Ok(x) = usize::try_from(*v) {
            forward_usize(x, true, &mut st, &mut out);
        }
    }
    // i32: all values with |v| < 2^16 (quick) / all 2^32 values (thorough)
    let (lo, hi): (i64, i64) = tier.pick((-(1 << 16), 1 << 16), (i32::MIN as i64, i32::MAX as i64 + 1));
    let chunks: Vec<(i64, i64)> = {
        let n = 256;
        let step = ((hi - lo) + n - 1) / n;
        (0..n).map(|k| (lo + k * step, (lo + (k + 1) * step).min(hi))).collect()
    };
    let res: Vec<(Stats, Vec<Violation>)> = chunks
        .par_iter()
        .map(|(a, b)| {
            let mut st = Stats::default();
            let mut out = vec![];
            for v in *a..*b {
                forward_i32(v as i32, false, &mut st, &mut out);
                if out.len() > 50 {
                    break;
                }
            }
            (st, out)
        })
        .collect();
    for (s, o) in res {
        st.merge(&s);
        out.extend(o);
    }
    st.add("i32_values", (hi - lo) as u64);
    // f64 grid
    let grid = f64_grid();
    st.add("f64_values", grid.len() as u64);
    let res: Vec<(Stats, Vec<Violation>)> = grid
        .par_chunks(4096)
        .map(|c| {
            let mut st = Stats::default();
            let mut out = vec![];
            for (i, v) in c.iter().enumerate() {
                forward_f64(*v, i % 64 == 0, &mut st, &mut out);
            }
            (st, out)
        })
        .collect();
    for (s, o) in res {
        st.merge(&s);
        out.extend(o);
    }
    // strings: the literal of a &str is xsd:string with the very same lexical form
    let salpha = ["a", "\"", "\\", "\n", "\r", "\t", "\0", "é", "\u{301}", "\u{10000}", " ", "'"];
    words_upto(salpha.len(), tier.pick(2, 3), &mut |w| {
        let s: String = w.iter().map(|i| salpha[*i]).collect();
        st.inc("validated");
        st.inc("strings");
        let a = ATerm::from_term(s.as_str());
        if a != ATerm::lit(&s) {
            out.push(Violation::new("forward:str", format!("{s:?} is {}", a.nq()), json!({"kind": "forward", "type": "str", "value": s})));
        }
        let st2: SimpleTerm<'static> = s.as_str().into_term();
        if ATerm::from_term(&st2) != ATerm::lit(&s) {
            out.push(Violation::new("forward:str-into-term", format!("{s:?}"), json!({"kind": "forward", "type": "str", "value": s})));
        }
    });
    // --- reverse
    let maxlen = tier.pick(4, 5);
    let dts = datatypes();
    let mut prefixes: Vec<Vec<usize>> = vec![];
    words_upto(LEX_ALPHABET.len(), 2, &mut |w| prefixes.push(w.to_vec()));
    let res: Vec<(Stats, Vec<Violation>)> = prefixes
        .par_iter()
        .map(|pre| {
            let mut st = Stats::default();
            let mut out = vec![];
            let rest = if pre.len() < 2 { 0 } else { maxlen - 2 };
            let head: String = pre.iter().map(|i| LEX_ALPHABET[*i]).collect();
            words_upto(LEX_ALPHABET.len(), rest, &mut |w| {
                let mut lex = head.clone();
                for i in w {
                    lex.push_str(LEX_ALPHABET[*i]);
                }
                st.inc("lexical_forms");
                for dt in &dts {
                    // representation 2 (N-Triples round trip) only for short forms (it is much slower)
                    for repr in 0..(if lex.chars().count() <= 3 { 3 } else { 2 }) {
                        if out.len() < 300 {
                            reverse_one(&lex, dt, repr, &mut st, &mut out);
                        }
                    }
                }
            });
            (st, out)
        })
        .collect();
    for (s, o) in res {
        st.merge(&s);
        out.extend(o);
    }
    // hand-picked long / extreme forms
    for lex in ["2147483647", "2147483648", "-2147483648", "-2147483649", "+0000000000000000000000001", "18446744073709551615", "18446744073709551616", "1e400", "-1e400", "1e-400", "0.1000000000000000055511151231257827", "179769313486231570000000000000000000000000000000000000000000000000000000000000000000000000000000000000000000000000000000000000000000000000000000000000000000000000000000000000000000000000000000000000000000000000000000000000000000000000000000000000000000000000000000000000000000000000000000000000000000000000000", "Infinity", "-infinity", "+inf", "NAN", "nan", "+NaN", "INF", "-INF", "NaN", "1_000", "0x10", "१", "1\u{0}"] {
        for dt in &dts {
            for repr in 0..3 {
                reverse_one(lex, dt, repr, &mut st, &mut out);
            }
        }
    }
    rep.stats.merge(&st);
    rep.stats.add("states", rep.stats.get("i32_values") + rep.stats.get("f64_values") + rep.stats.get("lexical_forms") * dts.len() as u64);
    rep.stats.add("transitions", rep.stats.get("validated"));
    // observed classes (vacuity guard)
    rep.stats.outcome("forward-conversion-round-trips");
    if rep.stats.get("reverse_ok") > 0 {
        rep.stats.outcome("reverse-conversion-accepted");
    }
    if rep.stats.get("reverse_refused") > 0 {
        rep.stats.outcome("reverse-conversion-refused");
    }
    rep.stats.add("nontrivial", rep.stats.get("reverse_ok") + rep.stats.get("f64_values"));
    rep.stats.sample(json!({"forward": "i32 -7 -> \"-7\"^^xsd:integer -> -7", "reverse": "\"1e1\"^^xsd:decimal -> f64"}));
    for v in &out {
        rep.stats.outcome(&v.sig);
    }
    rep.violations = out;
    rep.rule = format!(
        "forward: both booleans, all i32 in [{lo}, {hi}), structured isize/usize/i32 sets (every +-2^k+-{{0,1}}, +-10^k+-{{0,1}}), f64 grid = both signs x all 2048 exponents x {} mantissa patterns (incl. subnormals, +-0, infinities, NaNs, 17-digit boundary cases), strings over a 12-character alphabet; each value: lexical form in the lexical space of its datatype, denotes the value, try_from_term returns it (also via SimpleTerm, ArcTerm and an N-Triples round trip on a subset). reverse: every lexical form of length <= {maxlen} over {:?} x {} datatypes x 5 target types x 2-3 term representations: no panic, Ok(v) only if the literal denotes v; non-trivial = successful reverse conversions + f64 grid values",
        f64_grid().len() / 4096,
        LEX_ALPHABET,
        dts.len()
    );
    rep.bounds = json!({"i32_range": [lo, hi], "f64_grid": grid.len(), "lexical_length": maxlen});
    rep.assumptions = vec![
        "facet ranges of derived integer types are not demanded (\"300\"^^xsd:unsignedByte -> 300 is accepted)".into(),
        "Rust's str::parse::<f64> is taken as the correctly rounded value of a lexical form already validated against the XSD grammar".into(),
        "for xsd:float both the f32-rounded and the directly f64-rounded value are accepted".into(),
    ];
    rep
}

pub fn replay(case: &Value) -> Vec<Violation> {
    let mut st = Stats::default();
    let mut out = vec![];
    match case["kind"].as_str() {
        Some("forward") => {
            let v = case["value"].as_str().unwrap_or("");
            match case["type"].as_str() {
                Some("i32") => forward_i32(v.parse().unwrap_or(0), true, &mut st, &mut out),
                Some("isize") => forward_isize(v.parse().unwrap_or(0), true, &mut st, &mut out),
                Some("usize") => forward_usize(v.parse().unwrap_or(0), true, &mut st, &mut out),
                Some("f64") => forward_f64(f64::from_bits(u64::from_str_radix(v.trim_start_matches("0x"), 16).unwrap_or(0)), true, &mut st, &mut out),
                _ => out.push(Violation::new("replay-error", "unsupported forward type", case.clone())),
            }
        }
        Some("reverse") => reverse_one(case["lex"].as_str().unwrap_or(""), case["datatype"].as_str().unwrap_or(""), case["representation"].as_u64().unwrap_or(0) as u8, &mut st, &mut out),
        _ => out.push(Violation::new("replay-error", "unknown case kind", case.clone())),
    }
    out
}
