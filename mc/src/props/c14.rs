//! C14 — ORDER BY sorts by a consistent order that respects SPARQL's operator '<' (E4).
//!
//! The comparator is read end to end: for every ordered pair (a, b) of a value alphabet a two-row
//! dataset is sorted by the engine; the extracted strict relation is then checked, exhaustively
//! over all pairs and triples, to be a strict weak order that ranks unbound < blank node < IRI <
//! literal and contains SPARQL's '<' wherever that operator is defined.  All 3-subsets are then
//! sorted end to end in all insertion orders, ASC and DESC, with several key lists.
use crate::fw::*;
use crate::model::terms::*;
use crate::props::c13::{Got, run_query};
use rayon::prelude::*;
use serde_json::{Value, json};

fn xsd(l: &str) -> String {
    format!("{XSD}{l}")
}

/// None = unbound
pub fn alphabet(tier: Tier) -> Vec<Option<ATerm>> {
    let t = |lex: &str, dt: &str| Some(ATerm::typed(lex, &xsd(dt)));
    let mut v: Vec<Option<ATerm>> = vec![
        None,
        Some(ATerm::b("b1")),
        Some(ATerm::b("b2")),
        Some(ATerm::iri("http://a.example/")),
        Some(ATerm::iri("http://www.w3.org/2001/XMLSchema#integer")),
        Some(ATerm::iri("http://z.example/")),
        t("-1", "integer"),
        t("0", "integer"),
        t("5", "integer"),
        t("10", "integer"),
        t("7", "byte"),
        t("300", "byte"), // ill-typed: out of range
        t("6", "unsignedByte"),
        t("8", "long"),
        t("5.0", "decimal"),
        t("0.5", "decimal"),
        t("1234567890123456789012345678901234567890.5", "decimal"),
        t("9", "nonNegativeInteger"),
        t("5.5e0", "double"),
        t("NaN", "double"),
        t("INF", "double"),
        t("-INF", "double"),
        t("-0.0", "double"),
        t("1.5", "float"),
        t("NaN", "float"),
        t("abc", "integer"), // ill-typed
        t("true", "boolean"),
        t("false", "boolean"),
        t("maybe", "boolean"), // ill-typed
        t("2000-01-01T00:00:00Z", "dateTime"),
        t("2000-01-01T00:00:00", "dateTime"),
        t("2000-01-03T00:00:00+05:00", "dateTime"),
        t("1999-12-30T23:00:00-02:00", "dateTime"),
        t("2000-01-01T06:00:00", "dateTime"),
        t("yesterday", "dateTime"), // ill-typed
        Some(ATerm::lit("")),
        Some(ATerm::lit("a")),
        Some(ATerm::lit("b")),
        Some(ATerm::lit("B")),
        Some(ATerm::lit("5")),
        Some(ATerm::lang("a", "en")),
        Some(ATerm::lang("a", "EN")),
        Some(ATerm::lang("a", "fr")),
        Some(ATerm::lang("b", "en")),
        Some(ATerm::typed("x", "http://a.example/dt")),
        Some(ATerm::typed("x", "http://z.example/dt")),
        Some(ATerm::typed("5", "http://www.w3.org/2001/XMLSchema#aaa")),
        Some(ATerm::typed("y", "http://www.w3.org/2001/XMLSchema#gYear")),
        Some(ATerm::typed("2000-01-01", "http://www.w3.org/2001/XMLSchema#date")),
        Some(ATerm::triple(ATerm::iri("http://a.example/"), ATerm::iri("http://a.example/p"), ATerm::lit("a"))),
    ];
    if tier == Tier::Quick {
        // keep every class but fewer members (a complete sub-alphabet)
        let keep = [0usize, 1, 3, 5, 6, 8, 10, 11, 14, 16, 18, 19, 20, 22, 24, 25, 26, 27, 28, 29, 30, 31, 34, 36, 38, 40, 41, 42, 44, 45, 46, 49];
        v = keep.iter().map(|i| v[*i].clone()).collect();
    }
    v
}

// ---------------------------------------------------------------------------------------------
// SPARQL '<' (reference)

#[derive(Debug, Clone, PartialEq)]
enum RVal {
    Num(f64, bool),   // value, is_nan
    Big,              // the 40-digit decimal (greater than every other finite number of the alphabet)
    Str(String),
    Bool(bool),
    /// seconds since an arbitrary epoch, has timezone
    Date(i64, bool),
    None,
}
fn rval(t: &ATerm) -> RVal {
    let ATerm::Lit(dt, lang, lex) = t else { return RVal::None };
    if lang.is_some() {
        return RVal::None;
    }
    let Some(local) = dt.strip_prefix(XSD) else { return RVal::None };
    match local {
        "integer" | "long" | "nonNegativeInteger" => lex.parse::<i64>().map(|i| RVal::Num(i as f64, false)).unwrap_or(RVal::None),
        "byte" => lex.parse::<i8>().map(|i| RVal::Num(i as f64, false)).unwrap_or(RVal::None),
        "unsignedByte" => lex.parse::<u8>().map(|i| RVal::Num(i as f64, false)).unwrap_or(RVal::None),
        "decimal" => {
            if lex.len() > 30 {
                RVal::Big
            } else {
                lex.parse::<f64>().map(|f| RVal::Num(f, false)).unwrap_or(RVal::None)
            }
        }
        "double" | "float" => match lex.as_str() {
            "NaN" => RVal::Num(f64::NAN, true),
            "INF" => RVal::Num(f64::INFINITY, false),
            "-INF" => RVal::Num(f64::NEG_INFINITY, false),
            _ => lex.parse::<f64>().map(|f| RVal::Num(f, false)).unwrap_or(RVal::None),
        },
        "string" => RVal::Str(lex.clone()),
        "boolean" => match lex.as_str() {
            "true" => RVal::Bool(true),
            "false" => RVal::Bool(false),
            _ => RVal::None,
        },
        "dateTime" => {
            // fixed constants of the alphabet only
            match lex.as_str() {
                "2000-01-01T00:00:00Z" => RVal::Date(0, true),
                "2000-01-01T00:00:00" => RVal::Date(0, false),
                "2000-01-03T00:00:00+05:00" => RVal::Date(2 * 86400 - 5 * 3600, true),
                "1999-12-30T23:00:00-02:00" => RVal::Date(-2 * 86400 + 23 * 3600 + 2 * 3600, true),
                "2000-01-01T06:00:00" => RVal::Date(6 * 3600, false),
                _ => RVal::None,
            }
        }
        _ => RVal::None,
    }
}
/// Some(true) iff SPARQL's '<' is defined on (a, b) and true
fn sparql_lt(a: &ATerm, b: &ATerm) -> Option<bool> {
    match (rval(a), rval(b)) {
        (RVal::Num(_, true), RVal::Num(..) | RVal::Big) | (RVal::Num(..) | RVal::Big, RVal::Num(_, true)) => Some(false),
        (RVal::Num(x, _), RVal::Num(y, _)) => Some(x < y),
        (RVal::Num(x, _), RVal::Big) => Some(x != f64::INFINITY),
        (RVal::Big, RVal::Num(y, _)) => Some(y == f64::INFINITY),
        (RVal::Big, RVal::Big) => Some(false),
        (RVal::Str(x), RVal::Str(y)) => Some(x < y),
        (RVal::Bool(x), RVal::Bool(y)) => Some(!x & y),
        (RVal::Date(x, tx), RVal::Date(y, ty)) => {
            if tx == ty {
                Some(x < y)
            } else if (x - y).abs() > 14 * 3600 {
                Some(x < y)
            } else {
                None // indeterminate
            }
        }
        _ => None,
    }
}

// ---------------------------------------------------------------------------------------------
// driving the engine

fn s(i: usize) -> ATerm {
    ATerm::iri(&format!("http://s.example/{i:03}"))
}
fn p() -> ATerm {
    ATerm::iri("http://ex.org/p")
}
fn q() -> ATerm {
    ATerm::iri("http://ex.org/q")
}
fn row(i: usize, v: &Option<ATerm>) -> AQuad {
    match v {
        Some(t) => ([s(i), p(), t.clone()], None),
        None => ([s(i), q(), ATerm::iri("http://ex.org/none")], None),
    }
}
const SELECT: &str = "SELECT ?s ?o WHERE { { ?s <http://ex.org/p> ?o } UNION { ?s <http://ex.org/q> ?z } }";
const SELECT_UNBOUND_FIRST: &str = "SELECT ?s ?o WHERE { { ?s <http://ex.org/q> ?z } UNION { ?s <http://ex.org/p> ?o } }";

/// sort the rows with the engine; returns the order of row ids
fn engine_sort(rows: &[(usize, Option<ATerm>)], order_by: &str, unbound_first: bool) -> Result<Vec<usize>, String> {
    let data: Vec<AQuad> = rows.iter().map(|(i, v)| row(*i, v)).collect();
    let query = format!("{} ORDER BY {order_by}", if unbound_first { SELECT_UNBOUND_FIRST } else { SELECT });
    match run_query(&data, &query) {
        Got::Rows(_, sols) => {
            let mut out = vec![];
            for sol in sols {
                let Some(ATerm::Iri(i)) = sol.get("s") else { return Err("row without ?s".into()) };
                out.push(i.rsplit('/').next().unwrap().parse::<usize>().map_err(|e| e.to_string())?);
            }
            Ok(out)
        }
        Got::Panic(p) => Err(format!("panic: {p}")),
        other => Err(format!("{other:?}")),
    }
}

fn show(v: &Option<ATerm>) -> String {
    v.as_ref().map(|t| t.nq()).unwrap_or("UNBOUND".into())
}

/// lt[a][b] = the engine's comparator says a < b (extracted from two-row sorts)
fn extract_relation(v: &[Option<ATerm>], st: &mut Stats, out: &mut Vec<Violation>) -> Vec<Vec<bool>> {
    let n = v.len();
    let rows: Vec<Vec<Option<bool>>> = (0..n)
        .into_par_iter()
        .map(|a| {
            (0..n)
                .map(|b| {
                    // input order (a, b): rows 0 and 1; unbound rows come from the second UNION branch,
                    // so the branch order is chosen to put the unbound row where it must be
                    let unbound_first = v[a].is_none() && v[b].is_some();
                    if v[a].is_some() && v[b].is_none() || unbound_first || (v[a].is_some() == v[b].is_some()) {
                        match engine_sort(&[(0, v[a].clone()), (1, v[b].clone())], "?o", unbound_first) {
                            Ok(o) if o == vec![0, 1] => Some(false), // kept: not (b < a)
                            Ok(o) if o == vec![1, 0] => Some(true),  // swapped: b < a
                            _ => None,
                        }
                    } else {
                        None
                    }
                })
                .collect()
        })
        .collect();
    let mut lt = vec![vec![false; n]; n];
    for a in 0..n {
        for b in 0..n {
            st.inc("validated");
            match rows[a][b] {
                Some(swapped) => lt[b][a] = swapped,
                None => out.push(Violation::new("sort-of-two-rows-failed", format!("sorting [{}, {}] did not return a permutation of the two rows", show(&v[a]), show(&v[b])), json!({"values": [show(&v[a]), show(&v[b])], "order_by": "?o"}))),
            }
        }
    }
    lt
}

fn kind_rank(v: &Option<ATerm>) -> u8 {
    match v {
        None => 0,
        Some(ATerm::Bnode(_)) => 1,
        Some(ATerm::Iri(_)) => 2,
        Some(ATerm::Lit(..)) => 3,
        Some(_) => 4,
    }
}

fn class_of(v: &Option<ATerm>) -> &'static str {
    match v {
        None => "unbound",
        Some(ATerm::Bnode(_)) => "bnode",
        Some(ATerm::Iri(_)) => "iri",
        Some(ATerm::Triple(_)) => "triple",
        Some(ATerm::Var(_)) => "variable",
        Some(t @ ATerm::Lit(_, lang, _)) => {
            if lang.is_some() {
                "lang-string"
            } else {
                match rval(t) {
                    RVal::Num(_, true) => "nan",
                    RVal::Num(..) | RVal::Big => "number",
                    RVal::Str(_) => "string",
                    RVal::Bool(_) => "boolean",
                    RVal::Date(..) => "dateTime",
                    RVal::None => "other-literal",
                }
            }
        }
    }
}

pub fn run(tier: Tier) -> Report {
    let mut rep = Report::new("C14", tier);
    let v = alphabet(tier);
    let n = v.len();
    rep.stats.add("values", n as u64);
    let mut out: Vec<Violation> = vec![];
    let mut st = Stats::default();
    // (1) the comparator, pair by pair
    let lt = extract_relation(&v, &mut st, &mut out);
    let case2 = |a: usize, b: usize| json!({"values": [show(&v[a]), show(&v[b])], "order_by": "?o"});
    let case3 = |a: usize, b: usize, c: usize| json!({"values": [show(&v[a]), show(&v[b]), show(&v[c])], "order_by": "?o"});
    for a in 0..n {
        if lt[a][a] {
            out.push(Violation::new("not-irreflexive", format!("{} sorts strictly before itself", show(&v[a])), case2(a, a)));
        }
        for b in 0..n {
            st.inc("validated");
            if a < b && lt[a][b] && lt[b][a] {
                out.push(Violation::new(format!("not-antisymmetric:{}:{}", class_of(&v[a]), class_of(&v[b])), format!("{} < {} and {} < {}", show(&v[a]), show(&v[b]), show(&v[b]), show(&v[a])), case2(a, b)));
            }
            // kind order
            let (ka, kb) = (kind_rank(&v[a]), kind_rank(&v[b]));
            if ka < kb && ka <= 3 && kb <= 3 && !lt[a][b] {
                out.push(Violation::new("kind-order", format!("{} must sort before {} (unbound < blank node < IRI < literal)", show(&v[a]), show(&v[b])), case2(a, b)));
            }
            // SPARQL '<'
            if let (Some(x), Some(y)) = (&v[a], &v[b]) {
                if sparql_lt(x, y) == Some(true) && !lt[a][b] {
                    out.push(Violation::new(format!("contradicts-sparql-less-than:{}", class_of(&v[a])), format!("{} < {} in SPARQL, but ORDER BY does not put it first", x.nq(), y.nq()), case2(a, b)));
                }
            }
        }
    }
    // transitivity of '<' and of equivalence, over all triples
    let eqv = |a: usize, b: usize| !lt[a][b] && !lt[b][a];
    let mut cyc = 0;
    'outer: for a in 0..n {
        for b in 0..n {
            for c in 0..n {
                st.inc("validated");
                st.inc("transitions");
                if lt[a][b] && lt[b][c] && !lt[a][c] {
                    cyc += 1;
                    if cyc <= 40 {
                        let mut cl = [class_of(&v[a]), class_of(&v[b]), class_of(&v[c])];
                        cl.sort();
                        out.push(Violation::new(format!("not-transitive:{}+{}+{}", cl[0], cl[1], cl[2]), format!("{} < {} < {} but not {} < {}", show(&v[a]), show(&v[b]), show(&v[c]), show(&v[a]), show(&v[c])), case3(a, b, c)));
                    }
                }
                if eqv(a, b) && eqv(b, c) && !eqv(a, c) {
                    cyc += 1;
                    if cyc <= 40 {
                        let mut cl = [class_of(&v[a]), class_of(&v[b]), class_of(&v[c])];
                        cl.sort();
                        out.push(Violation::new(format!("ties-not-transitive:{}+{}+{}", cl[0], cl[1], cl[2]), format!("{} ~ {} ~ {} but {} and {} are ordered", show(&v[a]), show(&v[b]), show(&v[c]), show(&v[a]), show(&v[c])), case3(a, b, c)));
                    }
                }
                if cyc > 2000 {
                    break 'outer;
                }
            }
        }
    }
    rep.stats.add("order_violations_in_relation", cyc);
    // (2) end to end: all 3-subsets x 6 insertion orders x key lists
    let idx: Vec<usize> = (0..n).collect();
    let mut triples: Vec<[usize; 3]> = vec![];
    for a in 0..n {
        for b in (a + 1)..n {
            for c in (b + 1)..n {
                triples.push([a, b, c]);
            }
        }
    }
    let _ = idx;
    let keylists: Vec<(&str, bool, bool)> = vec![("?o", false, false), ("DESC(?o)", true, false), ("?o ?s", false, true), ("DESC(?o) DESC(?s)", true, true), ("?missing ?o", false, false)];
    let res: Vec<(Stats, Vec<Violation>)> = triples
        .par_iter()
        .map(|t| {
            let mut st = Stats::default();
            let mut out = vec![];
            let perms = [[0, 1, 2], [0, 2, 1], [1, 0, 2], [1, 2, 0], [2, 0, 1], [2, 1, 0]];
            for pm in perms {
                // row id i carries value t[pm[i]]
                let rows: Vec<(usize, Option<ATerm>)> = (0..3).map(|i| (i, v[t[pm[i]]].clone())).collect();
                // unbound rows always come from the second branch: fine, input order is then "bound rows, unbound rows"
                for (kl, desc, tiebreak) in &keylists {
                    st.inc("validated");
                    st.inc("states");
                    match engine_sort(&rows, kl, false) {
                        Err(e) => out.push(Violation::new(if e.starts_with("panic") { "panic" } else { "sort-failed" }, format!("ORDER BY {kl} over {:?}: {e}", rows.iter().map(|r| show(&r.1)).collect::<Vec<_>>()), json!({"values": rows.iter().map(|r| show(&r.1)).collect::<Vec<_>>(), "order_by": kl}))),
                        Ok(o) => {
                            let mut sorted = o.clone();
                            sorted.sort();
                            let case = json!({"values": rows.iter().map(|r| show(&r.1)).collect::<Vec<_>>(), "order_by": kl});
                            if sorted != vec![0, 1, 2] {
                                out.push(Violation::new("not-a-permutation", format!("ORDER BY {kl}: got rows {o:?}"), case));
                                continue;
                            }
                            // no later row may be strictly before an earlier one
                            for i in 0..3 {
                                for j in (i + 1)..3 {
                                    let (vi, vj) = (t[pm[o[i]]], t[pm[o[j]]]);
                                    let wrong = if *desc { lt[vi][vj] } else { lt[vj][vi] };
                                    let tie = !lt[vi][vj] && !lt[vj][vi];
                                    // with ?s as second key, ties must be ordered by row id
                                    let tie_wrong = *tiebreak && tie && (if *desc { o[i] < o[j] } else { o[i] > o[j] });
                                    if wrong || tie_wrong {
                                        let mut cl = [class_of(&v[t[0]]), class_of(&v[t[1]]), class_of(&v[t[2]])];
                                        cl.sort();
                                        if out.len() < 5 {
                                            out.push(Violation::new(
                                                format!("{}:{}+{}+{}", if wrong { "result-not-sorted" } else { "later-key-does-not-break-ties" }, cl[0], cl[1], cl[2]),
                                                format!("ORDER BY {kl} over {:?} returns rows in the order {:?}", rows.iter().map(|r| show(&r.1)).collect::<Vec<_>>(), o.iter().map(|i| show(&rows[*i].1)).collect::<Vec<_>>()),
                                                case.clone(),
                                            ));
                                        }
                                    }
                                }
                            }
                        }
                    }
                }
            }
            (st, out)
        })
        .collect();
    for (s2, o2) in res {
        st.merge(&s2);
        out.extend(o2);
    }
    // (3) long mixed sequences: sorting must not panic and must be sorted
    for stride in [1usize, 7, 11] {
        let rows: Vec<(usize, Option<ATerm>)> = (0..600).map(|i| (i, v[(i * stride + i / 7) % n].clone())).collect();
        st.inc("validated");
        match engine_sort(&rows, "?o", false) {
            Err(e) => out.push(Violation::new(if e.starts_with("panic") { "panic:600-rows" } else { "sort-failed:600-rows" }, e, json!({"values": "600 rows cycling through the alphabet", "stride": stride, "order_by": "?o"}))),
            Ok(o) => {
                let vals: Vec<usize> = o.iter().map(|i| (i * stride + i / 7) % n).collect();
                if o.len() != 600 || vals.windows(2).any(|w| lt[w[1]][w[0]]) {
                    out.push(Violation::new("result-not-sorted:600-rows", format!("stride {stride}"), json!({"values": "600 rows cycling through the alphabet", "stride": stride, "order_by": "?o"})));
                }
            }
        }
    }
    rep.stats.merge(&st);
    let classes: std::collections::BTreeSet<&str> = v.iter().map(class_of).collect();
    rep.stats.add("nontrivial", (n * n) as u64);
    for c in &classes {
        rep.stats.outcome(c);
    }
    rep.stats.sample(json!({"values": v.iter().map(show).collect::<Vec<_>>()}));
    rep.violations = out;
    rep.rule = format!(
        "value alphabet of {n} solution values (unbound, blank nodes, IRIs sorting before/inside/after the XSD namespace, every numeric class incl. derived integer types, NaN, +-INF, -0.0, a 40-digit decimal, ill-typed numerics/booleans/dateTimes, dateTimes with and without zone, plain and language-tagged strings with case-variant tags, unknown datatypes, a quoted triple); (1) the engine's comparator is extracted from ORDER BY over every ordered pair (two-row datasets, both insertion orders) and checked on all pairs and all {n}^3 triples to be a strict weak order ranking unbound < bnode < IRI < literal and containing SPARQL '<' wherever a reference implementation of that operator defines it; (2) every 3-subset in all 6 insertion orders under 5 key lists (ASC, DESC, tie-breaking second key, unbound first key) must come back as a permutation sorted accordingly; (3) three 600-row mixes must sort without panic; non-trivial = ordered pairs compared"
    );
    rep.bounds = json!({"values": n, "subset_size": 3, "long_rows": 600});
    rep.assumptions = vec!["the relation is read from the result order of two-row sorts: slice::sort_unstable_by swaps two elements only if the comparator says the second is less than the first (true of the pinned toolchain, and checked on tied values)".into(), "dateTime comparisons between a zoned and an unzoned value are demanded only when they differ by more than 14 hours".into()];
    rep
}

pub fn replay(case: &Value) -> Vec<Violation> {
    // re-run the full quick relation restricted to the recorded values
    let vals: Vec<String> = case["values"].as_array().map(|a| a.iter().filter_map(|x| x.as_str().map(String::from)).collect()).unwrap_or_default();
    let all = alphabet(Tier::Thorough);
    let sel: Vec<Option<ATerm>> = all.into_iter().filter(|v| vals.contains(&show(v))).collect();
    if sel.is_empty() {
        return vec![Violation::new("replay-error", "values not found in the alphabet", case.clone())];
    }
    let mut st = Stats::default();
    let mut out = vec![];
    let lt = extract_relation(&sel, &mut st, &mut out);
    let n = sel.len();
    for a in 0..n {
        for b in 0..n {
            if a < b && lt[a][b] && lt[b][a] {
                out.push(Violation::new("not-antisymmetric", format!("{} / {}", show(&sel[a]), show(&sel[b])), case.clone()));
            }
            if let (Some(x), Some(y)) = (&sel[a], &sel[b]) {
                if sparql_lt(x, y) == Some(true) && !lt[a][b] {
                    out.push(Violation::new("contradicts-sparql-less-than", format!("{} / {}", x.nq(), y.nq()), case.clone()));
                }
            }
            for c in 0..n {
                if lt[a][b] && lt[b][c] && !lt[a][c] {
                    out.push(Violation::new("not-transitive", format!("{} < {} < {}", show(&sel[a]), show(&sel[b]), show(&sel[c])), case.clone()));
                }
            }
        }
    }
    out
}
