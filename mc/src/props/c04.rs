//! C04 — Turtle/TriG output (plain or pretty) parses back to an isomorphic dataset (E2, pooled).
use crate::fw::*;
use crate::model::iso::iso;
use crate::model::refnq;
use crate::model::terms::*;
use crate::pool::Pooled;
use serde_json::{Value, json};
use sophia_api::prefix::{Prefix, PrefixMapPair};
use sophia_api::prelude::*;
use sophia_api::serializer::{QuadSerializer, Stringifier, TripleSerializer};
use sophia_api::source::IntoSource;
use sophia_api::term::SimpleTerm;
use sophia_turtle::serializer::trig::TrigSerializer;
use sophia_turtle::serializer::turtle::{TurtleConfig, TurtleSerializer};

pub struct C04;

#[derive(Clone, Debug)]
pub struct Case {
    pub trig: bool,
    pub pretty: bool,
    pub pm: usize,
    pub indent: usize,
    pub quads: Vec<AQuad>,
}

const EX: &str = "http://ex.org/ns/";
fn rdf(l: &str) -> ATerm {
    ATerm::iri(&format!("{RDF}{l}"))
}
fn ex(l: &str) -> ATerm {
    ATerm::iri(&format!("{EX}{l}"))
}
fn qt1() -> ATerm {
    ATerm::triple(ATerm::b("a"), ex("p"), ex("x"))
}
fn qt2() -> ATerm {
    ATerm::triple(ex("x"), ex("p"), ATerm::lit("l"))
}

/// full universe of triples (240)
pub fn full_universe() -> Vec<[ATerm; 3]> {
    let subjects = [ATerm::b("a"), ATerm::b("b"), ATerm::b("c"), ex("x"), qt1(), qt2()];
    let preds = [rdf("first"), rdf("rest"), rdf("type"), ex("p"), rdf("nil")];
    let objects = [ATerm::b("a"), ATerm::b("b"), ATerm::b("c"), rdf("nil"), ex("x"), ATerm::lit("l"), qt1(), qt2()];
    let mut v = vec![];
    for s in &subjects {
        for p in &preds {
            for o in &objects {
                v.push([s.clone(), p.clone(), o.clone()]);
            }
        }
    }
    v
}
/// reduced universe for deeper structures (lists, cycles): 3 x 3 x 4 = 36 triples + 2 rdf:type rdf:List triples
pub fn reduced_universe() -> Vec<[ATerm; 3]> {
    let subjects = [ATerm::b("a"), ATerm::b("b"), ex("x")];
    let preds = [rdf("first"), rdf("rest"), ex("p")];
    let objects = [ATerm::b("a"), ATerm::b("b"), rdf("nil"), ex("x")];
    let mut v = vec![];
    for s in &subjects {
        for p in &preds {
            for o in &objects {
                v.push([s.clone(), p.clone(), o.clone()]);
            }
        }
    }
    // typed list cells (their rdf:type triple must survive list compaction)
    v.push([ATerm::b("a"), rdf("type"), rdf("List")]);
    v.push([ATerm::b("b"), rdf("type"), rdf("List")]);
    v
}
fn graph_names() -> Vec<Option<ATerm>> {
    vec![None, Some(ex("g")), Some(ATerm::b("a"))]
}

pub fn prefix_maps() -> Vec<(&'static str, Vec<(String, String)>)> {
    vec![
        ("default", vec![("rdf".into(), RDF.into()), ("rdfs".into(), "http://www.w3.org/2000/01/rdf-schema#".into()), ("xsd".into(), XSD.into())]),
        ("ex", vec![("ex".into(), EX.into()), ("xsd".into(), XSD.into())]),
        ("empty-prefix", vec![("".into(), EX.into())]),
        ("overlapping", vec![("a".into(), EX.into()), ("ab".into(), format!("{EX}a/"))]),
        ("none", vec![]),
    ]
}
const INDENTS: [&str; 4] = ["  ", "", "\t", " "];

fn config(c: &Case) -> TurtleConfig {
    let pm: Vec<PrefixMapPair> = prefix_maps()[c.pm].1.iter().map(|(p, i)| (Prefix::new_unchecked(p.clone().into_boxed_str()), sophia_iri::Iri::new_unchecked(i.clone().into_boxed_str()))).collect();
    TurtleConfig::new().with_pretty(c.pretty).with_own_prefix_map(pm).with_indentation(INDENTS[c.indent])
}

const LIT_ALPHA: [&str; 8] = ["0", "1", ".", "e", "E", "+", "-", "x"];
const LOCAL_ALPHA: [&str; 11] = ["a", "1", ".", "-", "_", ":", "%", "/", "#", "~", "é"];

impl Pooled for C04 {
    type Case = Case;
    fn prop(&self) -> &'static str {
        "C04"
    }
    fn enumerate(&self, tier: Tier, f: &mut dyn FnMut(&Case)) {
        let gn = graph_names();
        let mut emit_shapes = |quads: Vec<AQuad>, f: &mut dyn FnMut(&Case)| {
            let default_only = quads.iter().all(|q| q.1.is_none());
            for pretty in [true, false] {
                if default_only {
                    f(&Case { trig: false, pretty, pm: 0, indent: 0, quads: quads.clone() });
                }
                f(&Case { trig: true, pretty, pm: 0, indent: 0, quads: quads.clone() });
            }
        };
        // (A1) all datasets of <= k quads over the reduced universe in the default graph
        let red = reduced_universe();
        let k_red = tier.pick(4, 6);
        subsets_upto(red.len(), k_red, &mut |idx| {
            if idx.is_empty() {
                return;
            }
            emit_shapes(idx.iter().map(|i| (red[*i].clone(), None)).collect(), f);
        });
        // (A2) all datasets of <= k quads over the full universe x graph names
        let full = full_universe();
        let mut fullq: Vec<AQuad> = vec![];
        for g in &gn {
            for t in &full {
                fullq.push((t.clone(), g.clone()));
            }
        }
        let k_full = tier.pick(1, 2);
        subsets_upto(fullq.len(), k_full, &mut |idx| {
            if idx.is_empty() {
                return;
            }
            emit_shapes(idx.iter().map(|i| fullq[*i].clone()).collect(), f);
        });
        // (A4) a medium universe (adds _:c, rdf:type, a quoted triple, a literal): 5 x 4 x 7 = 140 triples
        let med: Vec<[ATerm; 3]> = {
            let subjects = [ATerm::b("a"), ATerm::b("b"), ATerm::b("c"), ex("x"), qt1()];
            let preds = [rdf("first"), rdf("rest"), rdf("type"), ex("p")];
            let objects = [ATerm::b("a"), ATerm::b("b"), ATerm::b("c"), rdf("nil"), ex("x"), ATerm::lit("l"), qt1()];
            let mut v = vec![];
            for s in &subjects {
                for p in &preds {
                    for o in &objects {
                        v.push([s.clone(), p.clone(), o.clone()]);
                    }
                }
            }
            v
        };
        subsets_upto(med.len(), tier.pick(2, 3), &mut |idx| {
            if idx.len() < 2 {
                return;
            }
            emit_shapes(idx.iter().map(|i| (med[*i].clone(), None)).collect(), f);
        });
        // (A3) the reduced universe spread over two graphs (blank nodes spanning graphs), <= k quads
        let mut redq: Vec<AQuad> = vec![];
        for g in [None, Some(ex("g"))] {
            for t in &red {
                redq.push((t.clone(), g.clone()));
            }
        }
        subsets_upto(redq.len(), tier.pick(3, 4), &mut |idx| {
            if idx.len() < 2 || idx.iter().all(|i| redq[*i].1.is_none()) {
                return;
            }
            emit_shapes(idx.iter().map(|i| redq[*i].clone()).collect(), f);
        });
        // (B1) literals with numeric / boolean datatypes and valid or invalid lexical forms
        let dts = [format!("{XSD}integer"), format!("{XSD}decimal"), format!("{XSD}double"), format!("{XSD}boolean"), XSD_STRING.to_string()];
        let mut lexes: Vec<String> = vec!["true".into(), "false".into(), "True".into(), "TRUE".into(), "tru".into(), "1.0e".into(), "+1.5E-3".into(), ".5".into(), "5.".into(), "-.5e1".into(), "1e1x".into(), "0x1".into(), "".into(), "INF".into(), "NaN".into(), "1 ".into(), "1\n".into()];
        words_upto(LIT_ALPHA.len(), tier.pick(3, 5), &mut |w| lexes.push(w.iter().map(|i| LIT_ALPHA[*i]).collect()));
        for lex in &lexes {
            for dt in &dts {
                let q: AQuad = ([ex("s"), ex("p"), ATerm::typed(lex, dt)], None);
                for pretty in [true, false] {
                    for pm in [0usize, 4] {
                        f(&Case { trig: false, pretty, pm, indent: 0, quads: vec![q.clone()] });
                    }
                }
            }
        }
        // (B1b) string-valued literals (plain, language-tagged, custom datatype) whose text needs escaping in the
        // short or long quoted forms: every text of <= k symbols over [a " ' \ LF CR TAB]
        {
            let alpha = ["a", "\"", "'", "\\", "\n", "\r", "\t"];
            words_upto(alpha.len(), tier.pick(3, 4), &mut |w| {
                let lex: String = w.iter().map(|i| alpha[*i]).collect();
                for lit in [ATerm::lit(&lex), ATerm::lang(&lex, "en"), ATerm::typed(&lex, &format!("{EX}dt"))] {
                    let q: AQuad = ([ex("s"), ex("p"), lit], None);
                    for pretty in [true, false] {
                        f(&Case { trig: false, pretty, pm: 0, indent: 0, quads: vec![q.clone()] });
                    }
                    f(&Case { trig: true, pretty: true, pm: 1, indent: 1, quads: vec![(q.0.clone(), Some(ex("g")))] });
                }
            });
        }
        // (B2) IRIs whose local part may need escaping, against every prefix map and indentation
        let mut locals: Vec<String> = vec![];
        words_upto(LOCAL_ALPHA.len(), tier.pick(2, 3), &mut |w| locals.push(w.iter().map(|i| LOCAL_ALPHA[*i]).collect()));
        locals.extend(["a/b".to_string(), "a/".to_string(), "a.b.".to_string(), "%41".to_string(), "%4".to_string(), "a%41b".to_string(), "-a".to_string(), "a b".to_string()]);
        for l in &locals {
            let iri = format!("{EX}{l}");
            if sophia_iri::Iri::new(iri.as_str()).is_err() {
                continue;
            }
            let t = ATerm::iri(&iri);
            let q: AQuad = ([t.clone(), t.clone(), t.clone()], None);
            let q2: AQuad = ([ex("s"), ex("p"), ATerm::typed("x", &iri)], Some(t.clone()));
            for pm in 0..prefix_maps().len() {
                f(&Case { trig: false, pretty: true, pm, indent: 0, quads: vec![q.clone()] });
                f(&Case { trig: true, pretty: true, pm, indent: 1, quads: vec![q.clone(), q2.clone()] });
            }
        }
        // (B3) indentation strings on a structure with nesting
        let nested: Vec<AQuad> = vec![
            ([ex("s"), ex("p"), ATerm::b("a")], None),
            ([ATerm::b("a"), ex("p"), ATerm::b("b")], None),
            ([ATerm::b("b"), rdf("first"), ATerm::lit("x")], None),
            ([ATerm::b("b"), rdf("rest"), rdf("nil")], None),
            ([ex("s"), ex("p"), ATerm::lit("y")], Some(ex("g"))),
            ([ATerm::triple(ex("s"), ex("p"), ATerm::lit("y")), ex("q"), ATerm::lit("z")], Some(ex("g"))),
        ];
        for indent in 0..INDENTS.len() {
            for pm in 0..prefix_maps().len() {
                f(&Case { trig: true, pretty: true, pm, indent, quads: nested.clone() });
            }
        }
    }
    fn case_json(&self, c: &Case) -> Value {
        json!({"syntax": if c.trig { "trig" } else { "turtle" }, "pretty": c.pretty, "prefix_map": prefix_maps()[c.pm].0, "indentation": INDENTS[c.indent], "quads": quads_nq(&c.quads)})
    }
    fn case_from_json(&self, v: &Value) -> Option<Case> {
        let mut quads = vec![];
        for q in v["quads"].as_array()? {
            quads.push(refnq::parse_quad(q.as_str()?).ok()?);
        }
        Some(Case {
            trig: v["syntax"].as_str()? == "trig",
            pretty: v["pretty"].as_bool()?,
            pm: prefix_maps().iter().position(|p| Some(p.0) == v["prefix_map"].as_str())?,
            indent: INDENTS.iter().position(|i| Some(*i) == v["indentation"].as_str())?,
            quads,
        })
    }
    fn run(&self, c: &Case, st: &mut Stats) -> Vec<Violation> {
        let case = self.case_json(c);
        let mode = format!("{}:{}", if c.trig { "trig" } else { "turtle" }, if c.pretty { "pretty" } else { "plain" });
        let squads: Vec<SQuad> = c.quads.iter().map(to_squad).collect();
        let cfg = config(c);
        st.inc("validated");
        let text: Result<Result<String, String>, String> = guarded(|| {
            if c.trig {
                let mut ser = TrigSerializer::new_stringifier_with_config(cfg);
                ser.serialize_quads(squads.clone().into_iter().into_source()).map_err(|e| e.to_string())?;
                Ok(ser.to_string())
            } else {
                let triples: Vec<[SimpleTerm<'static>; 3]> = squads.iter().map(|q| q.0.clone()).collect();
                let mut ser = TurtleSerializer::new_stringifier_with_config(cfg);
                ser.serialize_triples(triples.into_iter().into_source()).map_err(|e| e.to_string())?;
                Ok(ser.to_string())
            }
        });
        let feature = shape_feature(&c.quads);
        let text = match text {
            Err(p) => return vec![Violation::new(format!("{mode}:serializer-panic:{feature}"), p, case)],
            Ok(Err(e)) => return vec![Violation::new(format!("{mode}:serializer-error:{feature}"), e, case)],
            Ok(Ok(t)) => t,
        };
        let back: Result<Result<Vec<AQuad>, String>, String> = guarded(|| {
            let mut v = vec![];
            if c.trig {
                sophia_turtle::parser::trig::parse_str(&text).for_each_quad(|q| v.push(from_quad(&q))).map_err(|e| e.to_string())?;
            } else {
                sophia_turtle::parser::turtle::parse_str(&text).for_each_triple(|t| v.push((from_triple(&t), None))).map_err(|e| e.to_string())?;
            }
            Ok(v)
        });
        let mut out = vec![];
        match back {
            Err(p) => out.push(Violation::new(format!("{mode}:parser-panic:{feature}"), format!("{text:?}: {p}"), case)),
            Ok(Err(e)) => out.push(Violation::new(format!("{mode}:output-does-not-parse:{feature}"), format!("{:?} serialised as {text:?}: {e}", quads_nq(&c.quads)), case)),
            Ok(Ok(v)) => {
                // every statement present exactly once: compare sizes as multisets, then isomorphism as sets
                let mut uniq = v.clone();
                uniq.sort();
                uniq.dedup();
                let dup = uniq.len() != v.len();
                if dup || !iso(&v, &c.quads) {
                    let kind = if dup {
                        "statement-duplicated"
                    } else if v.len() < c.quads.len() {
                        "statements-lost"
                    } else if v.len() > c.quads.len() {
                        "statements-invented"
                    } else {
                        "statements-changed"
                    };
                    out.push(Violation::new(format!("{mode}:{kind}:{feature}"), format!("{:?} serialised as {text:?} parses as {:?}", quads_nq(&c.quads), quads_nq(&v)), case));
                } else {
                    st.inc("round_trips_ok");
                }
            }
        }
        if text.contains('[') || text.contains('(') || text.contains("{|") || text.contains("GRAPH") || text.contains(" a ") {
            st.inc("nontrivial");
        }
        st.outcome(&format!("{mode}:{feature}"));
        if c.quads.len() >= 3 && text.contains('(') {
            st.sample(json!({"case": self.case_json(c), "text": text}));
        }
        out
    }
    fn timeout_s(&self) -> u64 {
        5
    }
    fn rlimit_as_bytes(&self) -> u64 {
        2 << 30
    }
    fn crash_sig(&self, c: &Case, kind: &str) -> String {
        format!("{}:{}:crash-{kind}:{}", if c.trig { "trig" } else { "turtle" }, if c.pretty { "pretty" } else { "plain" }, shape_feature(&c.quads))
    }
}

/// coarse structural features of a dataset, used to give violations a signature that identifies
/// the *kind of structure* that fails
pub fn shape_feature(quads: &[AQuad]) -> String {
    let mut f: Vec<&str> = vec![];
    let first = rdf("first");
    let rest = rdf("rest");
    let nil = rdf("nil");
    let has = |p: &dyn Fn(&AQuad) -> bool| quads.iter().any(|q| p(q));
    if has(&|q| q.0[1] == nil || matches!(&q.0[2], ATerm::Lit(dt, _, _) if *dt == nil.nq().trim_matches(['<', '>']).to_string()) || q.1.as_ref() == Some(&nil)) {
        f.push("nil-as-predicate-datatype-or-graph");
    }
    // list cells: subjects with rdf:first / rdf:rest
    let mut cells: std::collections::BTreeMap<&ATerm, (usize, usize, usize)> = Default::default();
    for q in quads {
        let e = cells.entry(&q.0[0]).or_insert((0, 0, 0));
        if q.0[1] == first {
            e.0 += 1;
        } else if q.0[1] == rest {
            e.1 += 1;
        } else {
            e.2 += 1;
        }
    }
    if cells.values().any(|(a, b, _)| *a > 1 || *b > 1) {
        f.push("branching-list-cell");
    }
    if cells.values().any(|(a, b, c)| (*a > 0 || *b > 0) && *c > 0) {
        f.push("list-cell-with-extra-property");
    }
    // blank node cycles (through any predicate, subject -> object)
    let bnodes = quad_bnodes(quads);
    let mut cyc = false;
    for b in &bnodes {
        // DFS from b
        let mut stack = vec![b.clone()];
        let mut seen = std::collections::BTreeSet::new();
        while let Some(x) = stack.pop() {
            for q in quads {
                if q.0[0] == ATerm::Bnode(x.clone()) {
                    if let ATerm::Bnode(o) = &q.0[2] {
                        if o == b {
                            cyc = true;
                        }
                        if seen.insert(o.clone()) {
                            stack.push(o.clone());
                        }
                    }
                }
            }
        }
    }
    if cyc {
        f.push("bnode-cycle");
    }
    if has(&|q| matches!(q.0[0], ATerm::Triple(_)) || matches!(q.0[2], ATerm::Triple(_))) {
        f.push("quoted-triple");
    }
    if has(&|q| matches!(&q.0[2], ATerm::Lit(dt, _, _) if dt.starts_with(XSD) && dt != XSD_STRING)) {
        f.push("xsd-typed-literal");
    }
    if has(&|q| q.1.is_some()) {
        f.push("named-graph");
    }
    if f.is_empty() {
        f.push("plain");
    }
    f.join("+")
}

pub fn run(tier: Tier) -> Report {
    let mut rep = Report::new("C04", tier);
    let o = crate::pool::parent(&C04, tier, None);
    rep.stats.merge(&o.stats);
    rep.stats.add("states", rep.stats.get("cases_run"));
    rep.stats.add("transitions", rep.stats.get("validated"));
    rep.violations = o.violations;
    rep.caps = o.caps;
    rep.rule = format!(
        "(A) every dataset of <= {} triples over a 36-triple universe (subjects _:a _:b ex:x, predicates rdf:first rdf:rest ex:p, objects _:a _:b rdf:nil ex:x) in the default graph, every dataset of <= {} quads over a 720-quad universe (adds _:c, quoted triples as subject/object, rdf:type, rdf:nil as predicate, literals, graph names default / IRI / blank), every dataset of <= {} quads of the small universe over two graphs, plus a 140-triple medium universe (<= 2 / 3 triples); each in Turtle and TriG, pretty and streaming mode; (B) literals of xsd:integer/decimal/double/boolean/string with every lexical form of length <= {} over [0 1 . e E + - x]; plain / tagged / datatyped strings with every text of length <= {} over [a \" ' \\ LF CR TAB]; IRIs ns+local for every local part of length <= {} over [a 1 . - _ : % / # ~ é] under 5 prefix maps (default, ex:, empty prefix, overlapping namespaces, none); 4 indentation strings; oracle: the output parses with the toolkit's Turtle/TriG parser into a dataset isomorphic (brute-force bijection search) to the input, no duplicate statement; non-trivial = output uses an abbreviation ([], (), {{| |}}, GRAPH, 'a')",
        tier.pick(4, 6),
        tier.pick(1, 2),
        tier.pick(3, 4),
        tier.pick(3, 5),
        tier.pick(3, 4),
        tier.pick(2, 3)
    );
    rep.bounds = json!({"reduced_universe_quads": tier.pick(4, 6), "full_universe_quads": tier.pick(1, 2), "medium_universe_quads": tier.pick(2, 3), "two_graph_quads": tier.pick(3, 4), "literal_length": tier.pick(3, 5), "local_length": tier.pick(2, 3)});
    rep.assumptions = vec!["isomorphism is decided by brute force over all blank node bijections (model/iso.rs), language tags compared case-insensitively".into()];
    rep
}

pub fn replay(case: &Value) -> Vec<Violation> {
    crate::pool::parent(&C04, Tier::Quick, Some(case)).violations
}
