//! C11 — graph/dataset views stay coherent with the underlying store (E1 history BFS).
//!
//! The system is a pair of real stores: `a` receives the operations as specified (directly or
//! through a view), the twin `b` always receives the corresponding *direct* operation, and a
//! reference set of abstract quads.  After every step the flag returned through the view must be
//! the flag of the direct operation and both stores must have the same content; in every state all
//! views of `a` are compared with projections of the reference.
use crate::bfs::*;
use crate::fw::*;
use crate::model::terms::*;
use serde_json::json;
use sophia_api::dataset::{Dataset, MutableDataset};
use sophia_api::graph::{Graph, MutableGraph};
use sophia_api::quad::{Gspo, Quad, Spog};
use sophia_api::term::matcher::{Any, GraphNameMatcher, Not};
use sophia_api::term::{SimpleTerm, Term, TermKind};
use sophia_inmem::dataset::{FastDataset, LightDataset};
use sophia_inmem::graph::{FastGraph, LightGraph};
use std::collections::{BTreeMap, BTreeSet, HashSet};

type ST = SimpleTerm<'static>;

fn ex(s: &str) -> ATerm {
    ATerm::iri(&format!("http://example.org/{s}"))
}
pub fn triples() -> Vec<[ATerm; 3]> {
    vec![
        [ex("s"), ex("p"), ex("o")],
        [ex("s"), ex("p"), ATerm::lang("v", "en")],
        [ATerm::b("g"), ex("p"), ex("s")],
        [ex("g1"), ex("q"), ATerm::triple(ex("s"), ex("p"), ATerm::b("g"))],
    ]
}
pub fn gnames() -> Vec<Option<ATerm>> {
    vec![None, Some(ex("g1")), Some(ex("g2")), Some(ATerm::b("g"))]
}
fn gname_absent() -> Option<ATerm> {
    Some(ex("absent"))
}

fn patterns() -> Vec<[Option<ATerm>; 3]> {
    let mut out: Vec<[Option<ATerm>; 3]> = vec![[None, None, None]];
    let mut push = |p: [Option<ATerm>; 3]| {
        if !out.contains(&p) {
            out.push(p)
        }
    };
    for t in triples() {
        for mask in 1..8u8 {
            let p = [
                if mask & 1 != 0 { Some(t[0].clone()) } else { None },
                if mask & 2 != 0 { Some(t[1].clone()) } else { None },
                if mask & 4 != 0 { Some(t[2].clone()) } else { None },
            ];
            push(p);
        }
    }
    // a constant that never occurs
    push([Some(ex("never")), None, None]);
    push([None, None, Some(ATerm::lang("v", "EN"))]);
    out
}
fn pat_matches(p: &[Option<ATerm>; 3], t: &[ATerm; 3]) -> bool {
    (0..3).all(|i| p[i].as_ref().map(|x| x.same_term(&t[i])).unwrap_or(true))
}

/// multiset of abstract (normalised) triples
fn ms_triples<I: Iterator<Item = [ATerm; 3]>>(it: I) -> BTreeMap<[ATerm; 3], usize> {
    let mut m = BTreeMap::new();
    for t in it {
        *m.entry([t[0].key(), t[1].key(), t[2].key()]).or_insert(0) += 1;
    }
    m
}
fn ms_quads<I: Iterator<Item = AQuad>>(it: I) -> BTreeMap<AQuad, usize> {
    let mut m = BTreeMap::new();
    for q in it {
        *m.entry(quad_key(&q)).or_insert(0) += 1;
    }
    m
}

fn opt_simple(p: &Option<ATerm>) -> Option<ST> {
    p.as_ref().map(|t| t.to_simple())
}

/// run `triples_matching` with a pattern of optional constants
fn query_graph<G: Graph>(g: &G, p: &[Option<ATerm>; 3]) -> Result<BTreeMap<[ATerm; 3], usize>, String> {
    let s = opt_simple(&p[0]);
    let pp = opt_simple(&p[1]);
    let o = opt_simple(&p[2]);
    macro_rules! run {
        ($sm:expr, $pm:expr, $om:expr) => {{
            let mut v = vec![];
            for t in g.triples_matching($sm, $pm, $om) {
                let t = t.map_err(|e| e.to_string())?;
                v.push(from_triple(&t));
            }
            Ok(ms_triples(v.into_iter()))
        }};
    }
    match (&s, &pp, &o) {
        (None, None, None) => run!(Any, Any, Any),
        (Some(s), None, None) => run!([s], Any, Any),
        (None, Some(p), None) => run!(Any, [p], Any),
        (None, None, Some(o)) => run!(Any, Any, [o]),
        (Some(s), Some(p), None) => run!([s], [p], Any),
        (Some(s), None, Some(o)) => run!([s], Any, [o]),
        (None, Some(p), Some(o)) => run!(Any, [p], [o]),
        (Some(s), Some(p), Some(o)) => run!([s], [p], [o]),
    }
}

fn all_triples<G: Graph>(g: &G) -> Result<BTreeMap<[ATerm; 3], usize>, String> {
    let mut v = vec![];
    for t in g.triples() {
        let t = t.map_err(|e| e.to_string())?;
        v.push(from_triple(&t));
    }
    Ok(ms_triples(v.into_iter()))
}
fn all_quads<D: Dataset>(d: &D) -> Result<BTreeMap<AQuad, usize>, String> {
    let mut v = vec![];
    for q in d.quads() {
        let q = q.map_err(|e| e.to_string())?;
        v.push(from_quad(&q));
    }
    Ok(ms_quads(v.into_iter()))
}

/// compare a view's answer with the expected projection.
/// `max_mult`: None => exact multiset equality; Some(f) => multiplicity between 1 and f(triple)
fn cmp_view(
    what: &str,
    got: &Result<BTreeMap<[ATerm; 3], usize>, String>,
    expected: &BTreeMap<[ATerm; 3], usize>,
    union: bool,
    out: &mut Vec<(String, String)>,
    sigp: &str,
) {
    match got {
        Err(e) => out.push((format!("{sigp}:error"), format!("{what}: unexpected error {e}"))),
        Ok(got) => {
            let ok = if union {
                got.len() == expected.len() && got.iter().all(|(t, n)| expected.get(t).map(|m| *n >= 1 && n <= m).unwrap_or(false))
            } else {
                got == expected
            };
            if !ok {
                out.push((
                    format!("{sigp}:content"),
                    format!("{what}: view shows {:?}, store projection is {:?}", show_ms(got), show_ms(expected)),
                ));
            }
        }
    }
}
fn show_ms(m: &BTreeMap<[ATerm; 3], usize>) -> Vec<String> {
    m.iter().map(|(t, n)| format!("{}x {} {} {}", n, t[0].nq(), t[1].nq(), t[2].nq())).collect()
}

// ---------------------------------------------------------------------------------------------
// dataset models

pub struct DsSys<D> {
    a: D,
    b: D,
    /// reference: list of quads in insertion order (multiset for list-backed stores)
    r: Vec<AQuad>,
}

#[derive(Clone, Debug)]
enum DsOp {
    Insert(usize, usize),
    Remove(usize, usize),
    ViewInsert(usize, usize),
    ViewRemove(usize, usize),
    /// d.graph_mut(g).remove_matching([subject of t], Any, Any)
    ViewRemoveMatching(usize, usize),
    /// d.graph_mut(g).retain_matching([subject of t], Any, Any)
    ViewRetainMatching(usize, usize),
}

fn ds_ops() -> Vec<DsOp> {
    let mut v = vec![];
    for t in 0..triples().len() {
        for g in 0..gnames().len() {
            v.push(DsOp::Insert(t, g));
            v.push(DsOp::Remove(t, g));
            v.push(DsOp::ViewInsert(t, g));
            v.push(DsOp::ViewRemove(t, g));
        }
    }
    // bulk mutations through the single-graph view, one per distinct subject
    let ts = triples();
    for t in 0..ts.len() {
        if (0..t).any(|u| ts[u][0] == ts[t][0]) {
            continue;
        }
        for g in 0..gnames().len() {
            v.push(DsOp::ViewRemoveMatching(t, g));
            v.push(DsOp::ViewRetainMatching(t, g));
        }
    }
    v
}

macro_rules! ds_model {
    ($name:ident, $ty:ty, $label:expr, $is_set:expr) => {
        pub struct $name;
        impl HistModel for $name {
            type Sys = DsSys<$ty>;
            fn n_ops(&self) -> usize {
                ds_ops().len()
            }
            fn op_name(&self, op: usize) -> String {
                let ts = triples();
                let gs = gnames();
                let f = |t: usize, g: usize| {
                    format!("{} {} {} {}", ts[t][0].nq(), ts[t][1].nq(), ts[t][2].nq(), gs[g].as_ref().map(|g| g.nq()).unwrap_or("DEFAULT".into()))
                };
                match &ds_ops()[op] {
                    DsOp::Insert(t, g) => format!("d.insert({})", f(*t, *g)),
                    DsOp::Remove(t, g) => format!("d.remove({})", f(*t, *g)),
                    DsOp::ViewInsert(t, g) => format!("d.graph_mut(g).insert({})", f(*t, *g)),
                    DsOp::ViewRemove(t, g) => format!("d.graph_mut(g).remove({})", f(*t, *g)),
                    DsOp::ViewRemoveMatching(t, g) => format!("d.graph_mut({}).remove_matching([{}], Any, Any)", gs[*g].as_ref().map(|g| g.nq()).unwrap_or("DEFAULT".into()), ts[*t][0].nq()),
                    DsOp::ViewRetainMatching(t, g) => format!("d.graph_mut({}).retain_matching([{}], Any, Any)", gs[*g].as_ref().map(|g| g.nq()).unwrap_or("DEFAULT".into()), ts[*t][0].nq()),
                }
            }
            fn fresh(&self) -> Self::Sys {
                DsSys { a: <$ty>::default(), b: <$ty>::default(), r: vec![] }
            }
            fn apply(&self, sys: &mut Self::Sys, op: usize, check: bool, out: &mut Vec<(String, String)>) -> bool {
                let ts = triples();
                let gs = gnames();
                let op = ds_ops()[op].clone();
                if let DsOp::ViewRemoveMatching(t, g) | DsOp::ViewRetainMatching(t, g) = op {
                    let retain = matches!(op, DsOp::ViewRetainMatching(..));
                    let subj = ts[t][0].clone();
                    let sm = [subj.to_simple()];
                    let gn: Option<ST> = gs[g].as_ref().map(|g| g.to_simple());
                    // reference: inside graph g, drop the quads whose subject is (remove) / is not (retain) `subj`
                    let doomed = |q: &AQuad| q.1 == gs[g] && ((q.0[0] == subj) != retain);
                    // twin: the same effect through direct single-quad removals
                    let victims: Vec<AQuad> = sys.r.iter().filter(|q| doomed(q)).cloned().collect();
                    for q in &victims {
                        let ([s, p, o], gq) = to_squad(q);
                        let _ = MutableDataset::remove(&mut sys.b, &s, &p, &o, gq.as_ref());
                    }
                    let fa: Result<usize, String> = {
                        let mut v = sys.a.graph_mut(gn.clone());
                        if retain {
                            MutableGraph::retain_matching(&mut v, sm.clone(), Any, Any).map(|_| victims.len()).map_err(|e| e.to_string())
                        } else {
                            MutableGraph::remove_matching(&mut v, sm.clone(), Any, Any).map_err(|e| e.to_string())
                        }
                    };
                    sys.r.retain(|q| !doomed(q));
                    if check {
                        if fa != Ok(victims.len()) && $is_set {
                            out.push((format!("{}:view-bulk-mutation-count", $label), format!("{}: returned {:?}, {} statements match", self.op_name_of(&op), fa, victims.len())));
                        }
                        let qa = all_quads(&sys.a);
                        let qb = all_quads(&sys.b);
                        if qa != qb {
                            out.push((
                                format!("{}:view-bulk-mutation-differs-from-direct", $label),
                                format!("{}: store after the mutation through the view {:?} differs from the store after the equivalent direct removals {:?}", self.op_name_of(&op), qa, qb),
                            ));
                        }
                    }
                    return true;
                }
                let (t, g, ins, view) = match op {
                    DsOp::Insert(t, g) => (t, g, true, false),
                    DsOp::Remove(t, g) => (t, g, false, false),
                    DsOp::ViewInsert(t, g) => (t, g, true, true),
                    DsOp::ViewRemove(t, g) => (t, g, false, true),
                    _ => unreachable!(),
                };
                let [s, p, o] = [ts[t][0].to_simple(), ts[t][1].to_simple(), ts[t][2].to_simple()];
                let gn: Option<ST> = gs[g].as_ref().map(|g| g.to_simple());
                // twin: direct operation
                let fb = if ins {
                    MutableDataset::insert(&mut sys.b, &s, &p, &o, gn.as_ref()).map_err(|e| e.to_string())
                } else {
                    MutableDataset::remove(&mut sys.b, &s, &p, &o, gn.as_ref()).map_err(|e| e.to_string())
                };
                // a: as specified
                let fa = if !view {
                    if ins {
                        MutableDataset::insert(&mut sys.a, &s, &p, &o, gn.as_ref()).map_err(|e| e.to_string())
                    } else {
                        MutableDataset::remove(&mut sys.a, &s, &p, &o, gn.as_ref()).map_err(|e| e.to_string())
                    }
                } else {
                    let mut v = sys.a.graph_mut(gn.clone());
                    if ins {
                        MutableGraph::insert(&mut v, &s, &p, &o).map_err(|e| e.to_string())
                    } else {
                        MutableGraph::remove(&mut v, &s, &p, &o).map_err(|e| e.to_string())
                    }
                };
                // reference
                let q: AQuad = (ts[t].clone(), gs[g].clone());
                let present = sys.r.iter().any(|x| quad_key(x) == quad_key(&q));
                let expected_flag = if ins { !present } else { present };
                if ins {
                    if !$is_set || !present {
                        sys.r.push(q.clone());
                    }
                } else if $is_set {
                    sys.r.retain(|x| quad_key(x) != quad_key(&q));
                }
                if check {
                    if fa != fb {
                        out.push((
                            format!("{}:view-flag-differs-from-direct", $label),
                            format!("{}: through view returned {:?}, direct operation returned {:?}", self.op_name_of(&op), fa, fb),
                        ));
                    }
                    if $is_set && fb != Ok(expected_flag) {
                        out.push((format!("{}:direct-flag", $label), format!("{}: direct op returned {:?}, set semantics gives {}", self.op_name_of(&op), fb, expected_flag)));
                    }
                    let qa = all_quads(&sys.a);
                    let qb = all_quads(&sys.b);
                    if qa != qb {
                        out.push((
                            format!("{}:view-mutation-differs-from-direct", $label),
                            format!("{}: store after view mutation {:?} differs from store after direct mutation {:?}", self.op_name_of(&op), qa, qb),
                        ));
                    }
                    if $is_set {
                        let er = ms_quads(sys.r.iter().cloned());
                        if qb.as_ref().ok() != Some(&er) {
                            out.push((format!("{}:direct-content", $label), format!("{}: store {:?} vs reference {:?}", self.op_name_of(&op), qb, er)));
                        }
                    }
                }
                true
            }
            fn key(&self, sys: &Self::Sys) -> String {
                // content of a (sequence for list stores), which determines every future answer;
                // the in-memory stores also keep terms of removed quads in their term index: the
                // index insertion order is part of the key for them through the hook
                let mut k = String::new();
                let mut qs: Vec<String> = vec![];
                for q in sys.a.quads() {
                    if let Ok(q) = q {
                        qs.push(quad_nq(&from_quad(&q)));
                    }
                }
                if $is_set {
                    qs.sort();
                }
                k.push_str(&qs.join("\n"));
                k.push_str("\n--\n");
                k.push_str(&index_key(&sys.a));
                k
            }
            fn battery(&self, sys: &Self::Sys, out: &mut Vec<(String, String)>) -> u64 {
                ds_battery_body!(&sys.a, &sys.r, $label, out)
            }
        }
        impl $name {
            fn op_name_of(&self, op: &DsOp) -> String {
                let i = ds_ops().iter().position(|o| format!("{o:?}") == format!("{op:?}")).unwrap();
                self.op_name(i)
            }
        }
    };
}

/// hidden state of the indexed stores: order of the term index
trait IndexKey {
    fn index_key(&self) -> String {
        String::new()
    }
}
impl IndexKey for FastDataset {
    fn index_key(&self) -> String {
        self.verif_index().verif_terms().iter().map(|t| ATerm::from_term(t).nq()).collect::<Vec<_>>().join(" ")
    }
}
impl IndexKey for LightDataset {
    fn index_key(&self) -> String {
        self.verif_index().verif_terms().iter().map(|t| ATerm::from_term(t).nq()).collect::<Vec<_>>().join(" ")
    }
}
impl IndexKey for FastGraph {
    fn index_key(&self) -> String {
        self.verif_index().verif_terms().iter().map(|t| ATerm::from_term(t).nq()).collect::<Vec<_>>().join(" ")
    }
}
impl IndexKey for LightGraph {
    fn index_key(&self) -> String {
        self.verif_index().verif_terms().iter().map(|t| ATerm::from_term(t).nq()).collect::<Vec<_>>().join(" ")
    }
}
impl IndexKey for BTreeSet<Spog<ST>> {}
impl IndexKey for HashSet<Gspo<ST>> {}
impl IndexKey for Vec<Spog<ST>> {}
impl IndexKey for BTreeSet<[ST; 3]> {}
impl IndexKey for Vec<[ST; 3]> {}
fn index_key<T: IndexKey>(t: &T) -> String {
    t.index_key()
}

macro_rules! partial {
        ($d:ident, $proj:ident, $filt:ident, $pats:ident, $out:ident, $n:ident, $label:ident, $m:expr, $sel:expr, $name:expr) => {{
            let expected = $proj(&$sel);
            let view = $d.partial_union_graph($m);
            cmp_view(&format!("partial_union_graph({}).triples()", $name), &all_triples(&view), &expected, true, $out, &format!("{}:partial-union-view", $label));
            $n += 1;
            for p in &$pats {
                cmp_view(
                    &format!("partial_union_graph({}).triples_matching({p:?})", $name),
                    &query_graph(&view, p),
                    &$filt(&expected, p),
                    true,
                    $out,
                    &format!("{}:partial-union-view-matching", $label),
                );
                $n += 1;
            }
        }};
    }

macro_rules! ds_battery_body {
    ($dd:expr, $rr:expr, $ll:expr, $oo:expr) => {{
    let d = $dd; let r: &[AQuad] = $rr; let label: &str = $ll; let out: &mut Vec<(String, String)> = $oo;
    let mut n = 0u64;
    let pats = patterns();
    let proj = |sel: &dyn Fn(&Option<ATerm>) -> bool| -> BTreeMap<[ATerm; 3], usize> {
        ms_triples(r.iter().filter(|q| sel(&q.1)).map(|q| q.0.clone()))
    };
    let filt = |m: &BTreeMap<[ATerm; 3], usize>, p: &[Option<ATerm>; 3]| -> BTreeMap<[ATerm; 3], usize> {
        m.iter().filter(|(t, _)| pat_matches(p, t)).map(|(t, n)| (t.clone(), *n)).collect()
    };
    let mut names = gnames();
    names.push(gname_absent());
    // single-graph views
    for g in &names {
        let gs = g.as_ref().map(|g| g.to_simple());
        let view = d.graph(gs);
        let gk = g.as_ref().map(|g| g.key());
        let expected = proj(&|x| x.as_ref().map(|x| x.key()) == gk);
        let what = format!("graph({})", g.as_ref().map(|g| g.nq()).unwrap_or("DEFAULT".into()));
        cmp_view(&format!("{what}.triples()"), &all_triples(&view), &expected, false, out, &format!("{label}:graph-view"));
        n += 1;
        for p in &pats {
            cmp_view(
                &format!("{what}.triples_matching({:?})", p.iter().map(|x| x.as_ref().map(|x| x.nq())).collect::<Vec<_>>()),
                &query_graph(&view, p),
                &filt(&expected, p),
                false,
                out,
                &format!("{label}:graph-view-matching"),
            );
            n += 1;
        }
        for t in triples() {
            let [s, p, o] = [t[0].to_simple(), t[1].to_simple(), t[2].to_simple()];
            let got = view.contains(&s, &p, &o).map_err(|e| e.to_string());
            let exp = expected.contains_key(&[t[0].key(), t[1].key(), t[2].key()]);
            if got != Ok(exp) {
                out.push((format!("{label}:graph-view-contains"), format!("{what}.contains({:?}) = {:?}, expected {}", t, got, exp)));
            }
            n += 1;
        }
    }
    // union graph: as a set; multiplicity between 1 and the number of source quads
    {
        let expected = proj(&|_| true);
        let view = d.union_graph();
        cmp_view("union_graph().triples()", &all_triples(&view), &expected, true, out, &format!("{label}:union-view"));
        n += 1;
        for p in &pats {
            cmp_view(&format!("union_graph().triples_matching({p:?})"), &query_graph(&view, p), &filt(&expected, p), true, out, &format!("{label}:union-view-matching"));
            n += 1;
        }
    }
    // partial unions
    let g1 = ex("g1").to_simple();
    let g2 = ex("g2").to_simple();
    let g1k = ex("g1");
    let g2k = ex("g2");
    partial!(d, proj, filt, pats, out, n, label, Any, |_x: &Option<ATerm>| true, "Any");
    partial!(d, proj, filt, pats, out, n, label, [Some(&g1), Some(&g2)], |x: &Option<ATerm>| x.as_ref() == Some(&g1k) || x.as_ref() == Some(&g2k), "[g1,g2]");
    partial!(d, proj, filt, pats, out, n, label, [None::<&ST>, Some(&g2)], |x: &Option<ATerm>| x.is_none() || x.as_ref() == Some(&g2k), "[default,g2]");
    partial!(d, proj, filt, pats, out, n, label, [Some(&g1)], |x: &Option<ATerm>| x.as_ref() == Some(&g1k), "[g1]");
    partial!(d, proj, filt, pats, out, n, label, Some(TermKind::BlankNode), |x: &Option<ATerm>| matches!(x, Some(ATerm::Bnode(_))), "kind=bnode");
    partial!(d, proj, filt, pats, out, n, label, None::<TermKind>, |x: &Option<ATerm>| x.is_none(), "kind=default");
    fn not_g1(g: Option<SimpleTerm>) -> bool {
        Not([Some(ex("g1").to_simple())]).matches(g.as_ref())
    }
    partial!(d, proj, filt, pats, out, n, label, not_g1, |x: &Option<ATerm>| x.as_ref() != Some(&g1k), "closure(Not([g1]))");
    fn closure_m(g: Option<SimpleTerm>) -> bool {
        g.map(|g| g.is_iri()).unwrap_or(false)
    }
    partial!(d, proj, filt, pats, out, n, label, closure_m, |x: &Option<ATerm>| matches!(x, Some(ATerm::Iri(_))), "closure(is_iri)");
    n

    }};
}

type BtSpog = BTreeSet<Spog<ST>>;
type HsGspo = HashSet<Gspo<ST>>;
type VecSpog = Vec<Spog<ST>>;
ds_model!(FastDs, FastDataset, "FastDataset", true);
ds_model!(LightDs, LightDataset, "LightDataset", true);
ds_model!(BtDs, BtSpog, "BTreeSet<Spog>", true);
ds_model!(HsDs, HsGspo, "HashSet<Gspo>", true);
ds_model!(VecDs, VecSpog, "Vec<Spog>", false);

// ---------------------------------------------------------------------------------------------
// graph-as-dataset models

pub struct GrSys<G> {
    a: G,
    b: G,
    r: Vec<[ATerm; 3]>,
}
#[derive(Clone, Debug)]
enum GrOp {
    Insert(usize),
    Remove(usize),
    /// through as_dataset_mut(), with graph name index (0 = default, 1 = ex:g1)
    ViewInsert(usize, usize),
    ViewRemove(usize, usize),
}
fn gr_ops() -> Vec<GrOp> {
    let mut v = vec![];
    for t in 0..triples().len() {
        v.push(GrOp::Insert(t));
        v.push(GrOp::Remove(t));
        for g in 0..2 {
            v.push(GrOp::ViewInsert(t, g));
            v.push(GrOp::ViewRemove(t, g));
        }
    }
    v
}

macro_rules! gr_model {
    ($name:ident, $ty:ty, $label:expr, $is_set:expr) => {
        pub struct $name;
        impl HistModel for $name {
            type Sys = GrSys<$ty>;
            fn n_ops(&self) -> usize {
                gr_ops().len()
            }
            fn op_name(&self, op: usize) -> String {
                let ts = triples();
                let f = |t: usize| format!("{} {} {}", ts[t][0].nq(), ts[t][1].nq(), ts[t][2].nq());
                match &gr_ops()[op] {
                    GrOp::Insert(t) => format!("g.insert({})", f(*t)),
                    GrOp::Remove(t) => format!("g.remove({})", f(*t)),
                    GrOp::ViewInsert(t, g) => format!("g.as_dataset_mut().insert({}, {})", f(*t), if *g == 0 { "DEFAULT" } else { "<g1>" }),
                    GrOp::ViewRemove(t, g) => format!("g.as_dataset_mut().remove({}, {})", f(*t), if *g == 0 { "DEFAULT" } else { "<g1>" }),
                }
            }
            fn fresh(&self) -> Self::Sys {
                GrSys { a: <$ty>::default(), b: <$ty>::default(), r: vec![] }
            }
            fn apply(&self, sys: &mut Self::Sys, opi: usize, check: bool, out: &mut Vec<(String, String)>) -> bool {
                let ts = triples();
                let op = gr_ops()[opi].clone();
                let (t, ins, view, named) = match op {
                    GrOp::Insert(t) => (t, true, false, false),
                    GrOp::Remove(t) => (t, false, false, false),
                    GrOp::ViewInsert(t, g) => (t, true, true, g == 1),
                    GrOp::ViewRemove(t, g) => (t, false, true, g == 1),
                };
                let [s, p, o] = [ts[t][0].to_simple(), ts[t][1].to_simple(), ts[t][2].to_simple()];
                let g1 = ex("g1").to_simple();
                let name = self.op_name(opi);
                if named {
                    // a named graph does not exist in a graph seen as a dataset: insert must fail
                    // (error), remove must return false; nothing may change
                    let before = all_triples(&sys.a);
                    let fa = {
                        let mut v = sys.a.as_dataset_mut();
                        if ins {
                            MutableDataset::insert(&mut v, &s, &p, &o, Some(&g1)).map_err(|e| e.to_string())
                        } else {
                            MutableDataset::remove(&mut v, &s, &p, &o, Some(&g1)).map_err(|e| e.to_string())
                        }
                    };
                    if check {
                        let after = all_triples(&sys.a);
                        if before != after {
                            out.push((format!("{}:as-dataset-named-graph-changed-content", $label), format!("{name}: content changed from {:?} to {:?}", before, after)));
                        }
                        if fa == Ok(true) {
                            out.push((format!("{}:as-dataset-named-graph-flag", $label), format!("{name}: returned Ok(true) although the quad cannot be in this dataset")));
                        }
                    }
                    return true;
                }
                let fb = if ins {
                    MutableGraph::insert(&mut sys.b, &s, &p, &o).map_err(|e| e.to_string())
                } else {
                    MutableGraph::remove(&mut sys.b, &s, &p, &o).map_err(|e| e.to_string())
                };
                let fa = if !view {
                    if ins {
                        MutableGraph::insert(&mut sys.a, &s, &p, &o).map_err(|e| e.to_string())
                    } else {
                        MutableGraph::remove(&mut sys.a, &s, &p, &o).map_err(|e| e.to_string())
                    }
                } else {
                    let mut v = sys.a.as_dataset_mut();
                    if ins {
                        MutableDataset::insert(&mut v, &s, &p, &o, None::<&ST>).map_err(|e| e.to_string())
                    } else {
                        MutableDataset::remove(&mut v, &s, &p, &o, None::<&ST>).map_err(|e| e.to_string())
                    }
                };
                let tk = [ts[t][0].key(), ts[t][1].key(), ts[t][2].key()];
                let present = sys.r.iter().any(|x| *x == tk);
                let expected_flag = if ins { !present } else { present };
                if ins {
                    if !$is_set || !present {
                        sys.r.push(tk.clone());
                    }
                } else if $is_set {
                    sys.r.retain(|x| *x != tk);
                }
                if check {
                    if fa != fb {
                        out.push((format!("{}:view-flag-differs-from-direct", $label), format!("{name}: through view returned {:?}, direct operation returned {:?}", fa, fb)));
                    }
                    if $is_set && fb != Ok(expected_flag) {
                        out.push((format!("{}:direct-flag", $label), format!("{name}: direct op returned {:?}, set semantics gives {}", fb, expected_flag)));
                    }
                    let qa = all_triples(&sys.a);
                    let qb = all_triples(&sys.b);
                    if qa != qb {
                        out.push((
                            format!("{}:view-mutation-differs-from-direct", $label),
                            format!("{name}: graph after view mutation {:?} differs from graph after direct mutation {:?}", qa.as_ref().map(show_ms), qb.as_ref().map(show_ms)),
                        ));
                    }
                    if $is_set {
                        let er = ms_triples(sys.r.iter().cloned());
                        if qb.as_ref().ok() != Some(&er) {
                            out.push((format!("{}:direct-content", $label), format!("{name}: graph {:?} vs reference {:?}", qb, er)));
                        }
                    }
                }
                true
            }
            fn key(&self, sys: &Self::Sys) -> String {
                let mut qs: Vec<String> = vec![];
                for t in sys.a.triples() {
                    if let Ok(t) = t {
                        let t = from_triple(&t);
                        qs.push(format!("{} {} {}", t[0].nq(), t[1].nq(), t[2].nq()));
                    }
                }
                if $is_set {
                    qs.sort();
                }
                format!("{}\n--\n{}", qs.join("\n"), index_key(&sys.a))
            }
            fn battery(&self, sys: &Self::Sys, out: &mut Vec<(String, String)>) -> u64 {
                let mut n = 0;
                let label = $label;
                let expected_t = ms_triples(sys.r.iter().cloned());
                let expected_q: BTreeMap<AQuad, usize> = expected_t.iter().map(|(t, n)| ((t.clone(), None), *n)).collect();
                let view = sys.a.as_dataset();
                let got = all_quads(&view);
                if got.as_ref().ok() != Some(&expected_q) {
                    out.push((format!("{label}:as-dataset-quads"), format!("as_dataset().quads() = {:?}, expected {:?}", got, expected_q)));
                }
                n += 1;
                // pattern queries through the view, with several graph-name matchers
                let g1 = ex("g1").to_simple();
                for p in patterns() {
                    let exp_default: BTreeMap<[ATerm; 3], usize> = expected_t.iter().filter(|(t, _)| pat_matches(&p, t)).map(|(t, n)| (t.clone(), *n)).collect();
                    let empty = BTreeMap::new();
                    macro_rules! gq {
                        ($gm:expr, $exp:expr, $gname:expr) => {{
                            let s = opt_simple(&p[0]);
                            let pp = opt_simple(&p[1]);
                            let o = opt_simple(&p[2]);
                            let mut v = vec![];
                            let mut err = None;
                            let mut bad_g = false;
                            macro_rules! run {
                                ($sm:expr, $pm:expr, $om:expr) => {
                                    for q in view.quads_matching($sm, $pm, $om, $gm) {
                                        match q {
                                            Ok(q) => {
                                                if q.g().is_some() {
                                                    bad_g = true;
                                                }
                                                v.push(from_triple(&q.spog().0));
                                            }
                                            Err(e) => err = Some(e.to_string()),
                                        }
                                    }
                                };
                            }
                            match (&s, &pp, &o) {
                                (None, None, None) => run!(Any, Any, Any),
                                (Some(s), None, None) => run!([s], Any, Any),
                                (None, Some(p), None) => run!(Any, [p], Any),
                                (None, None, Some(o)) => run!(Any, Any, [o]),
                                (Some(s), Some(p), None) => run!([s], [p], Any),
                                (Some(s), None, Some(o)) => run!([s], Any, [o]),
                                (None, Some(p), Some(o)) => run!(Any, [p], [o]),
                                (Some(s), Some(p), Some(o)) => run!([s], [p], [o]),
                            }
                            let got = ms_triples(v.into_iter());
                            if err.is_some() || bad_g || &got != $exp {
                                out.push((
                                    format!("{label}:as-dataset-quads-matching"),
                                    format!("as_dataset().quads_matching({p:?}, {}) = {:?} (err {:?}, named graph in result: {}), expected {:?}", $gname, show_ms(&got), err, bad_g, show_ms($exp)),
                                ));
                            }
                            n += 1;
                        }};
                    }
                    gq!(Any, &exp_default, "Any");
                    gq!([None::<&ST>], &exp_default, "[default]");
                    gq!([Some(&g1)], &empty, "[g1]");
                    gq!([None, Some(&g1)], &exp_default, "[default,g1]");
                    gq!(Not([Some(&g1)]), &exp_default, "Not([g1])");
                    gq!(Some(TermKind::Iri), &empty, "kind=iri");
                }
                for t in triples() {
                    let [s, p, o] = [t[0].to_simple(), t[1].to_simple(), t[2].to_simple()];
                    let exp = expected_t.contains_key(&[t[0].key(), t[1].key(), t[2].key()]);
                    let got = view.contains(&s, &p, &o, None::<&ST>).map_err(|e| e.to_string());
                    if got != Ok(exp) {
                        out.push((format!("{label}:as-dataset-contains"), format!("as_dataset().contains({t:?}, default) = {got:?}, expected {exp}")));
                    }
                    let got = view.contains(&s, &p, &o, Some(&g1)).map_err(|e| e.to_string());
                    if got != Ok(false) {
                        out.push((format!("{label}:as-dataset-contains"), format!("as_dataset().contains({t:?}, g1) = {got:?}, expected false")));
                    }
                    n += 2;
                }
                // graph names of the view: none
                let names: Vec<_> = view.graph_names().filter_map(|r| r.ok()).map(ATerm::from_term).collect();
                if !names.is_empty() {
                    out.push((format!("{label}:as-dataset-graph-names"), format!("as_dataset().graph_names() = {names:?}, expected none")));
                }
                n += 1;
                // into_dataset on a fresh copy built from the reference
                let mut copy = <$ty>::default();
                for t in &sys.r {
                    let _ = MutableGraph::insert(&mut copy, t[0].to_simple(), t[1].to_simple(), t[2].to_simple());
                }
                let owned = copy.into_dataset();
                let got = all_quads(&owned);
                let exp_set: BTreeMap<AQuad, usize> = if $is_set { expected_q.clone() } else { expected_q.clone() };
                if got.as_ref().ok() != Some(&exp_set) {
                    out.push((format!("{label}:into-dataset-quads"), format!("into_dataset().quads() = {:?}, expected {:?}", got, exp_set)));
                }
                n += 1;
                n
            }
        }
    };
}

type BtGraph = BTreeSet<[ST; 3]>;
type VecGraph = Vec<[ST; 3]>;
gr_model!(FastGr, FastGraph, "FastGraph", true);
gr_model!(LightGr, LightGraph, "LightGraph", true);
gr_model!(BtGr, BtGraph, "BTreeSet<[T;3]>", true);
gr_model!(VecGr, VecGraph, "Vec<[T;3]>", false);

fn run_model<M: HistModel>(m: &M, label: &str, depth: usize, rep: &mut Report) {
    let o = bfs(m, depth, 3_000_000);
    rep.stats.add("states", o.states);
    rep.stats.add("transitions", o.transitions);
    rep.stats.add("validated", o.comparisons + o.transitions);
    rep.stats.add("nontrivial", o.states.saturating_sub(1));
    rep.stats.add(&format!("states[{label}]"), o.states);
    rep.stats.max("max_depth", o.max_depth as u64);
    for h in o.sample_histories.iter().take(1) {
        rep.stats.sample(json!({"store": label, "history": m.history_json(h)}));
    }
    for mut v in o.violations {
        v.case["store"] = json!(label);
        rep.stats.outcome(&v.sig);
        rep.violations.push(v);
    }
    rep.stats.outcome(&format!("{label}:explored"));
}

pub fn run(tier: Tier) -> Report {
    let mut rep = Report::new("C11", tier);
    if let Err(e) = self_test() {
        eprintln!("ENGINE ERROR: BFS self-test failed: {e}");
        std::process::exit(2);
    }
    let dd = tier.pick(3, 4);
    let dg = tier.pick(4, 6);
    run_model(&FastDs, "FastDataset", dd, &mut rep);
    run_model(&LightDs, "LightDataset", dd, &mut rep);
    run_model(&BtDs, "BTreeSet<Spog>", dd, &mut rep);
    run_model(&HsDs, "HashSet<Gspo>", dd, &mut rep);
    run_model(&VecDs, "Vec<Spog>", tier.pick(2, 3), &mut rep);
    run_model(&FastGr, "FastGraph", dg, &mut rep);
    run_model(&LightGr, "LightGraph", dg, &mut rep);
    run_model(&BtGr, "BTreeSet<[T;3]>", dg, &mut rep);
    run_model(&VecGr, "Vec<[T;3]>", tier.pick(3, 4), &mut rep);
    rep.rule = format!(
        "explicit-state BFS over operation histories (direct and through-view insert/remove of {} triples x {} graph names, remove_matching/retain_matching by subject through every single-graph view; graphs: direct and as_dataset_mut with default/named graph) on 9 store types, every reachable state deduplicated by canonical content + term-index order; in each state every view (graph(g) for 5 names incl. an absent one, union_graph, 8 partial_union_graph matchers, as_dataset, into_dataset) is compared with the projection of the reference under {} triple patterns; a state is non-trivial when it is not the empty store",
        triples().len(),
        gnames().len(),
        patterns().len()
    );
    rep.bounds = json!({"depth_datasets": dd, "depth_graphs": dg, "triples": triples().len(), "graph_names": gnames().len(), "patterns": patterns().len()});
    rep.assumptions = vec![
        "list-backed stores (Vec) are compared with a twin store receiving the direct operations; their flags are not compared with set semantics".into(),
        "union views may report a triple between 1 and (number of source quads) times".into(),
    ];
    rep
}

pub fn replay(case: &serde_json::Value) -> Vec<Violation> {
    // a replay re-executes the recorded history on the recorded store type with checks on every step
    let store = case["store"].as_str().unwrap_or("");
    let hist: Vec<String> = case["history"].as_array().map(|a| a.iter().filter_map(|x| x.as_str().map(String::from)).collect()).unwrap_or_default();
    fn go<M: HistModel>(m: &M, hist: &[String], store: &str) -> Vec<Violation> {
        let names: Vec<String> = (0..m.n_ops()).map(|i| m.op_name(i)).collect();
        let mut sys = m.fresh();
        let mut out = vec![];
        let mut vs = vec![];
        for h in hist {
            let Some(op) = names.iter().position(|n| n == h) else {
                return vec![Violation::new("replay-error", format!("unknown op {h}"), json!({}))];
            };
            m.apply(&mut sys, op, true, &mut vs);
            m.battery(&sys, &mut vs);
        }
        for (sig, detail) in vs {
            out.push(Violation::new(sig, detail, json!({"store": store, "history": hist})));
        }
        out
    }
    match store {
        "FastDataset" => go(&FastDs, &hist, store),
        "LightDataset" => go(&LightDs, &hist, store),
        "BTreeSet<Spog>" => go(&BtDs, &hist, store),
        "HashSet<Gspo>" => go(&HsDs, &hist, store),
        "Vec<Spog>" => go(&VecDs, &hist, store),
        "FastGraph" => go(&FastGr, &hist, store),
        "LightGraph" => go(&LightGr, &hist, store),
        "BTreeSet<[T;3]>" => go(&BtGr, &hist, store),
        "Vec<[T;3]>" => go(&VecGr, &hist, store),
        _ => vec![Violation::new("replay-error", format!("unknown store {store}"), json!({}))],
    }
}
