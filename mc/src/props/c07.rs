//! C07 — isomorphism test: no false negatives, no blindness to ground differences (E2).
use crate::fw::*;
use crate::model::refnq;
use crate::model::terms::*;
use rayon::prelude::*;
use serde_json::{Value, json};
use sophia_api::dataset::MutableDataset;
use sophia_api::prelude::*;
use sophia_api::quad::Spog;
use sophia_api::term::SimpleTerm;
use sophia_isomorphism::{isomorphic_datasets, isomorphic_graphs};
use std::collections::{BTreeMap, BTreeSet, HashSet};

type ST = SimpleTerm<'static>;

fn ex(l: &str) -> ATerm {
    ATerm::iri(&format!("http://ex.org/{l}"))
}
fn qt1() -> ATerm {
    ATerm::triple(ATerm::b("a"), ex("p"), ATerm::b("b"))
}
fn qt2() -> ATerm {
    ATerm::triple(ex("x"), ex("p"), ATerm::triple(ATerm::b("a"), ex("p"), ATerm::lit("l")))
}

fn universe(full: bool) -> Vec<AQuad> {
    let subjects: Vec<ATerm> = if full { vec![ATerm::b("a"), ATerm::b("b"), ex("x"), qt1(), qt2()] } else { vec![ATerm::b("a"), ATerm::b("b"), ex("x"), qt1()] };
    let preds: Vec<ATerm> = if full { vec![ex("p"), ATerm::b("b"), ATerm::var("v")] } else { vec![ex("p"), ATerm::b("b")] };
    // (qt3 = << ex:x _:b _:a >>: a blank node in the predicate position of a quoted triple)
    let qt3 = ATerm::triple(ex("x"), ATerm::b("b"), ATerm::b("a"));
    let objects: Vec<ATerm> = if full { vec![ATerm::b("a"), ATerm::b("b"), ATerm::b("c"), ex("x"), ATerm::lit("l"), ATerm::lang("l", "en"), qt1(), qt2(), qt3, ATerm::var("v")] } else { vec![ATerm::b("a"), ATerm::b("c"), ex("x"), ATerm::lit("l"), ATerm::lang("l", "en"), qt2(), qt3] };
    let graphs: Vec<Option<ATerm>> = vec![None, Some(ATerm::b("a")), Some(ex("x"))];
    let mut v = vec![];
    for g in &graphs {
        for s in &subjects {
            for p in &preds {
                for o in &objects {
                    v.push(([s.clone(), p.clone(), o.clone()], g.clone()));
                }
            }
        }
    }
    v
}

#[derive(Clone, Copy, Debug)]
enum C {
    Vec,
    Hash,
    BTree,
    Fast,
}
fn build<D: MutableDataset + Default>(quads: &[AQuad]) -> D {
    let mut d = D::default();
    for q in quads {
        let ([s, p, o], g) = to_squad(q);
        let _ = d.insert(s, p, o, g);
    }
    d
}
fn iso_call(a: &[AQuad], ca: C, b: &[AQuad], cb: C) -> Result<bool, String> {
    macro_rules! with {
        ($c:expr, $q:expr, $f:expr) => {
            match $c {
                C::Vec => $f(&$q.iter().map(to_squad).collect::<Vec<Spog<ST>>>()),
                C::Hash => $f(&build::<HashSet<Spog<ST>>>($q)),
                C::BTree => $f(&build::<BTreeSet<Spog<ST>>>($q)),
                C::Fast => $f(&build::<sophia_inmem::dataset::FastDataset>($q)),
            }
        };
    }
    fn inner<D1: Dataset>(d1: &D1, b: &[AQuad], cb: C) -> Result<bool, String> {
        macro_rules! second {
            ($d2:expr) => {
                isomorphic_datasets(d1, $d2).map_err(|e| e.to_string())
            };
        }
        match cb {
            C::Vec => second!(&b.iter().map(to_squad).collect::<Vec<Spog<ST>>>()),
            C::Hash => second!(&build::<HashSet<Spog<ST>>>(b)),
            C::BTree => second!(&build::<BTreeSet<Spog<ST>>>(b)),
            C::Fast => second!(&build::<sophia_inmem::dataset::FastDataset>(b)),
        }
    }
    match guarded(|| with!(ca, a, |d| inner(d, b, cb))) {
        Ok(r) => r,
        Err(p) => Err(format!("panic: {p}")),
    }
}
fn iso_graph_call(a: &[AQuad], b: &[AQuad]) -> Result<bool, String> {
    let ga: Vec<[ST; 3]> = a.iter().map(|q| to_squad(q).0).collect();
    let gb: BTreeSet<[ST; 3]> = b.iter().map(|q| to_squad(q).0).collect();
    match guarded(|| isomorphic_graphs(&ga, &gb).map_err(|e| e.to_string())) {
        Ok(r) => r,
        Err(p) => Err(format!("panic: {p}")),
    }
}

/// the same graphs seen through dataset views (their iterators filter, so size hints are not exact):
/// `a` as the named graph <gv> of a Vec dataset that also holds other quads, `b` as the partial union
/// of two named graphs of another dataset
fn iso_graph_view_call(a: &[AQuad], b: &[AQuad]) -> Result<bool, String> {
    let gv = ex("gv").to_simple();
    let gw = ex("gw").to_simple();
    let mut da: Vec<Spog<ST>> = vec![([ex("u1").to_simple(), ex("p").to_simple(), ex("u2").to_simple()], None), ([ex("u1").to_simple(), ex("p").to_simple(), ex("u3").to_simple()], Some(gw.clone()))];
    for q in a {
        da.push((to_squad(q).0, Some(gv.clone())));
    }
    let mut db: Vec<Spog<ST>> = vec![([ex("u4").to_simple(), ex("p").to_simple(), ex("u5").to_simple()], None)];
    for (i, q) in b.iter().enumerate() {
        db.push((to_squad(q).0, Some(if i % 2 == 0 { gv.clone() } else { gw.clone() })));
    }
    let plain: Vec<[ST; 3]> = b.iter().map(|q| to_squad(q).0).collect();
    match guarded(|| {
        let va = da.graph(Some(gv.clone()));
        let vb = db.partial_union_graph([Some(&gv), Some(&gw)]);
        let r1 = isomorphic_graphs(&va, &plain).map_err(|e| e.to_string())?;
        let r2 = isomorphic_graphs(&plain, &va).map_err(|e| e.to_string())?;
        let r3 = isomorphic_graphs(&va, &vb).map_err(|e| e.to_string())?;
        Ok::<bool, String>(r1 && r2 && r3)
    }) {
        Ok(r) => r,
        Err(p) => Err(format!("panic: {p}")),
    }
}

fn blank(t: &ATerm) -> ATerm {
    t.rename(&|_| "_".to_string())
}
fn blanked_multiset(d: &[AQuad]) -> BTreeMap<AQuad, usize> {
    let mut m = BTreeMap::new();
    let set: BTreeSet<AQuad> = d.iter().map(quad_key).collect();
    for q in set {
        *m.entry(([blank(&q.0[0]), blank(&q.0[1]), blank(&q.0[2])], q.1.as_ref().map(blank))).or_insert(0) += 1;
    }
    m
}
fn set_size(d: &[AQuad]) -> usize {
    d.iter().map(quad_key).collect::<BTreeSet<_>>().len()
}

fn depth_feature(d: &[AQuad]) -> &'static str {
    let nested = d.iter().any(|q| q.0.iter().chain(q.1.iter()).any(|t| matches!(t, ATerm::Triple(_)) && !t.is_ground()));
    if nested { "bnode-inside-quoted-triple" } else { "bnodes-at-top-level-only" }
}

fn check_dataset(d: &[AQuad], st: &mut Stats, out: &mut Vec<Violation>) {
    let labels = quad_bnodes(d);
    let n = labels.len();
    let case = json!({"quads": quads_nq(d)});
    let feat = depth_feature(d);
    st.inc("states");
    // --- positive: every bijective relabelling, statement order and container pair
    let fresh = ["x", "y", "z", "w"];
    let mut perm: Vec<usize> = (0..n).collect();
    let pairs = [(C::Vec, C::Hash), (C::BTree, C::Fast), (C::Fast, C::Vec), (C::Hash, C::BTree)];
    let mut k = 0;
    loop {
        for target in [&fresh[..], &["a", "b", "c", "d"][..]] {
            // onto fresh labels, and a permutation of the existing labels (swap)
            let m: BTreeMap<&str, String> = labels.iter().enumerate().map(|(i, l)| (l.as_str(), if target[0] == "a" { labels[perm[i]].clone() } else { target[perm[i]].to_string() })).collect();
            let mut copy: Vec<AQuad> = d.iter().map(|q| quad_rename(q, &|b| m[b].clone())).collect();
            if k % 2 == 1 {
                copy.reverse();
            }
            let (ca, cb) = pairs[k % pairs.len()];
            k += 1;
            st.add("validated", 2);
            st.inc("transitions");
            st.outcome("answered-true:relabelled-copy");
            let r1 = iso_call(d, ca, &copy, cb);
            let r2 = iso_call(&copy, cb, d, ca);
            if r1 != Ok(true) || r2 != Ok(true) {
                out.push(Violation::new(
                    format!("false-negative:{feat}"),
                    format!("{:?} vs its relabelled copy {:?} ({ca:?} vs {cb:?}): {r1:?} / reversed arguments {r2:?}", quads_nq(d), quads_nq(&copy)),
                    case.clone(),
                ));
                return;
            }
            if d.iter().all(|q| q.1.is_none()) {
                st.inc("validated");
                let r = iso_graph_call(d, &copy);
                if r != Ok(true) {
                    out.push(Violation::new(format!("false-negative:graph:{feat}"), format!("{:?} vs {:?}: {r:?}", quads_nq(d), quads_nq(&copy)), case.clone()));
                    return;
                }
                st.inc("validated");
                let r = iso_graph_view_call(d, &copy);
                if r != Ok(true) {
                    out.push(Violation::new(format!("false-negative:graph-views:{feat}"), format!("{:?} vs {:?} seen through Dataset::graph / partial_union_graph views: {r:?}", quads_nq(d), quads_nq(&copy)), case.clone()));
                    return;
                }
            }
        }
        if !next_perm(&mut perm) {
            break;
        }
    }
    if n > 0 {
        st.inc("nontrivial");
    }
    // --- negative: single-edit neighbours
    let mut neighbours: Vec<(String, Vec<AQuad>)> = vec![];
    // one ground atom replaced
    for (i, q) in d.iter().enumerate() {
        for pos in 0..4 {
            let t = if pos < 3 { Some(&q.0[pos]) } else { q.1.as_ref() };
            let Some(t) = t else { continue };
            let replaced = match t {
                ATerm::Iri(_) => Some(ex("other")),
                // a tagged literal: only the language tag changes; a plain one: another lexical form
                ATerm::Lit(_, Some(_), lex) => Some(ATerm::lang(lex, "fr")),
                ATerm::Lit(..) => Some(ATerm::lit("m")),
                ATerm::Var(_) => Some(ATerm::var("w")),
                _ => None,
            };
            if let Some(r) = replaced {
                let mut c = d.to_vec();
                if pos < 3 {
                    c[i].0[pos] = r;
                } else {
                    c[i].1 = Some(r);
                }
                neighbours.push(("atom-replaced".into(), c));
            }
        }
        // statement moved between the default graph and a named graph
        let mut c = d.to_vec();
        c[i].1 = if q.1.is_some() { None } else { Some(ex("x")) };
        neighbours.push(("moved-between-default-and-named-graph".into(), c));
        if q.1.is_none() {
            let mut c = d.to_vec();
            c[i].1 = Some(ATerm::b("newgraph"));
            neighbours.push(("moved-to-blank-named-graph".into(), c));
        }
        // statement removed
        let mut c = d.to_vec();
        c.remove(i);
        neighbours.push(("statement-removed".into(), c));
    }
    // statement added
    let mut c = d.to_vec();
    c.push(([ATerm::b("new"), ex("p"), ex("x")], None));
    neighbours.push(("statement-added".into(), c));
    let mut c = d.to_vec();
    c.push(([ex("x"), ex("added"), ex("x")], None));
    neighbours.push(("ground-statement-added".into(), c));
    // two labels merged
    for i in 0..n {
        for j in (i + 1)..n {
            let c: Vec<AQuad> = d.iter().map(|q| quad_rename(q, &|b| if b == labels[j] { labels[i].clone() } else { b.to_string() })).collect();
            neighbours.push(("labels-merged".into(), c));
        }
    }
    // one label split: the first occurrence of a label gets a fresh name
    for l in &labels {
        let mut done = false;
        let c: Vec<AQuad> = d
            .iter()
            .map(|q| {
                if done {
                    return q.clone();
                }
                let mentions = {
                    let mut v = vec![];
                    for t in q.0.iter().chain(q.1.iter()) {
                        t.bnodes(&mut v);
                    }
                    v.contains(l)
                };
                if mentions {
                    done = true;
                    // rename only inside the subject if it mentions l, else the whole quad
                    quad_rename(q, &|b| if b == l { "split".to_string() } else { b.to_string() })
                } else {
                    q.clone()
                }
            })
            .collect();
        neighbours.push(("label-split".into(), c));
    }
    let size = set_size(d);
    let bm = blanked_multiset(d);
    for (kind, nb) in neighbours {
        let differs = set_size(&nb) != size || quad_bnodes(&nb).len() != n || blanked_multiset(&nb) != bm;
        if !differs {
            continue;
        }
        st.add("validated", 2);
        st.inc("transitions");
        let r1 = iso_call(d, C::Hash, &nb, C::Vec);
        let r2 = iso_call(&nb, C::BTree, d, C::Fast);
        st.outcome(&format!("answered-false:{kind}"));
        if r1 != Ok(false) || r2 != Ok(false) {
            out.push(Violation::new(
                format!("false-positive:{kind}"),
                format!("{:?} vs {:?} differ in size, blank node count or blanked statements, yet the answer is {r1:?} / {r2:?}", quads_nq(d), quads_nq(&nb)),
                json!({"quads": quads_nq(d), "other": quads_nq(&nb)}),
            ));
            return;
        }
    }
}

pub fn run(tier: Tier) -> Report {
    let mut rep = Report::new("C07", tier);
    let full = universe(true);
    let small = universe(false);
    let mut datasets: Vec<Vec<AQuad>> = vec![];
    subsets_upto(full.len(), tier.pick(1, 2), &mut |idx| {
        if !idx.is_empty() {
            datasets.push(idx.iter().map(|i| full[*i].clone()).collect());
        }
    });
    subsets_upto(small.len(), tier.pick(2, 3), &mut |idx| {
        if idx.len() >= 2 {
            datasets.push(idx.iter().map(|i| small[*i].clone()).collect());
        }
    });
    // a few larger symmetric structures
    for n in 3..=6 {
        datasets.push(crate::model::graphs::cycle(n));
        datasets.push(crate::model::graphs::copies(&crate::model::graphs::cycle(3), 2).into_iter().take(2 * n.min(3)).collect());
    }
    rep.stats.add("datasets", datasets.len() as u64);
    let res: Vec<(Stats, Vec<Violation>)> = datasets
        .par_iter()
        .map(|d| {
            let mut st = Stats::default();
            let mut out = vec![];
            if quad_bnodes(d).len() <= 4 {
                check_dataset(d, &mut st, &mut out);
            }
            (st, out)
        })
        .collect();
    for (st, out) in res {
        rep.stats.merge(&st);
        rep.violations.extend(out);
    }
    rep.stats.sample(json!({"quads": quads_nq(&datasets[datasets.len() / 2])}));
    rep.rule = format!(
        "every generalized dataset of <= {} quads over a {}-quad universe (subjects _:a _:b ex:x <<_:a ex:p _:b>> <<ex:x ex:p <<_:a ex:p \"l\">>>>, predicates ex:p _:b ?v, objects incl. _:c, a plain and a language-tagged literal, three quoted triples (one with a blank predicate) and a variable, graph names default / _:a / ex:x) and of <= {} quads over a {}-quad sub-universe; for each: all bijections of its blank node labels onto fresh labels and onto its own labels (swaps), reversed statement order, 4 ordered container pairs (Vec, HashSet, BTreeSet, FastDataset) in both argument orders, and isomorphic_graphs for default-graph datasets (as Vec/BTreeSet graphs and through Dataset::graph and partial_union_graph views of datasets holding other quads): must answer true; every single-edit neighbour (one ground atom replaced - for a tagged literal only its language tag -, one statement moved between the default graph and a named graph, one statement added/removed, two labels merged, one label split) that differs in size, blank node count or bnode-blanked statements must answer false in both argument orders; non-trivial = datasets with blank nodes",
        tier.pick(1, 2),
        full.len(),
        tier.pick(2, 3),
        small.len()
    );
    rep.bounds = json!({"full_universe": full.len(), "full_k": tier.pick(1, 2), "small_universe": small.len(), "small_k": tier.pick(2, 3)});
    rep.assumptions = vec!["false is only demanded where the property demands it (size, blank node count, blanked statements); colour refinement may answer true for other non-isomorphic pairs".into()];
    rep
}

pub fn replay(case: &Value) -> Vec<Violation> {
    let d: Vec<AQuad> = case["quads"].as_array().map(|a| a.iter().filter_map(|q| q.as_str().and_then(|s| refnq::parse_quad(s).ok())).collect()).unwrap_or_default();
    let mut st = Stats::default();
    let mut out = vec![];
    check_dataset(&d, &mut st, &mut out);
    out
}
