//! C01 — in-memory graphs/datasets behave exactly like a mathematical set of quads (E1 BFS).
use crate::bfs::*;
use crate::fw::*;
use crate::model::terms::*;
use serde_json::{Value, json};
use sophia_api::dataset::{Dataset, MutableDataset};
use sophia_api::graph::{Graph, MutableGraph};
use sophia_api::quad::{Gspo, Quad, Spog};
use sophia_api::source::{IntoSource, QuadSource, TripleSource};
use sophia_api::term::matcher::{Any, DatatypeMatcher, GraphNameMatcher, LanguageTagMatcher, Not, TermMatcher};
use sophia_api::term::{GraphName, IriRef, LanguageTag, SimpleTerm, Term, TermKind};
use sophia_inmem::dataset::{GenericFastDataset, GenericLightDataset};
use sophia_inmem::graph::{GenericFastGraph, GenericLightGraph};
use sophia_inmem::index::{Index, SimpleTermIndex};
use std::collections::{BTreeMap, BTreeSet, HashSet};
use std::marker::PhantomData;

type ST = SimpleTerm<'static>;

// ---------------------------------------------------------------------------------------------
// a 3-bit index type, so that "index full" is reachable within a few operations

#[derive(Clone, Copy, Debug, PartialEq, Eq, PartialOrd, Ord, Default)]
pub struct U3(u8);
impl Index for U3 {
    const ZERO: Self = U3(0);
    const MAX: Self = U3(7);
    fn from_usize(other: usize) -> Self {
        assert!(other <= 7, "usize too big to be converted to U3");
        U3(other as u8)
    }
    fn into_usize(self) -> usize {
        self.0 as usize
    }
}

// ---------------------------------------------------------------------------------------------
// alphabet

fn i1() -> ATerm {
    ATerm::iri("http://ex.org/i1")
}
fn i2() -> ATerm {
    ATerm::iri("http://ex.org/i2")
}
fn absent() -> ATerm {
    ATerm::iri("http://ex.org/absent")
}
fn bn() -> ATerm {
    ATerm::b("b")
}
fn v() -> ATerm {
    ATerm::lit("v")
}
fn v_en() -> ATerm {
    ATerm::lang("v", "en")
}
fn v_en_upper() -> ATerm {
    ATerm::lang("v", "EN")
}
fn one() -> ATerm {
    ATerm::typed("1", &format!("{XSD}integer"))
}
fn qt() -> ATerm {
    ATerm::triple(i1(), i2(), v_en())
}
fn qt_twin() -> ATerm {
    ATerm::triple(i1(), i2(), v_en_upper())
}
fn var() -> ATerm {
    ATerm::var("x")
}

pub fn universe() -> Vec<AQuad> {
    vec![
        ([i1(), i2(), v()], None),
        ([i1(), i2(), v_en()], None),
        ([i1(), i2(), v_en_upper()], None), // same quad as the previous one (case folding)
        ([bn(), i2(), i1()], Some(i1())),
        ([i1(), i2(), one()], Some(bn())),
        ([qt(), i2(), i1()], None),
        ([qt_twin(), i2(), i1()], None), // same quad as the previous one
        ([var(), i1(), bn()], Some(i1())),
        ([i2(), i1(), i1()], None),
        ([i1(), i2(), v()], Some(i1())),
    ]
}

// ---------------------------------------------------------------------------------------------
// matcher descriptions, their reference semantics, and the *real* matchers they stand for

#[derive(Clone, Debug, PartialEq)]
pub enum MD {
    Any,
    /// `[T; 1]`
    Const(ATerm),
    /// `Option<T>` = Some
    OptSome(ATerm),
    /// `Option<T>` = None (matches nothing)
    OptNone,
    /// `[T; 2]`
    List2(ATerm, ATerm),
    /// `&[T]` with one element (has a constant)
    Slice1(ATerm),
    Kind(u8),
    NotConst(ATerm),
    NotKind(u8),
    /// closure: lexical form == "v" or is blank node
    Closure,
    Datatype(String),
    Lang(String),
    /// `(Any, [p], Any)`
    TripleWithP(ATerm),
}
fn kind_of(k: u8) -> TermKind {
    match k {
        0 => TermKind::BlankNode,
        1 => TermKind::Iri,
        2 => TermKind::Literal,
        3 => TermKind::Triple,
        _ => TermKind::Variable,
    }
}
fn closure_fn(t: SimpleTerm<'_>) -> bool {
    t.is_blank_node() || t.lexical_form().map(|l| &*l == "v").unwrap_or(false)
}
impl MD {
    /// reference semantics
    pub fn matches(&self, t: &ATerm) -> bool {
        match self {
            MD::Any => true,
            MD::Const(c) | MD::OptSome(c) | MD::Slice1(c) => c.same_term(t),
            MD::OptNone => false,
            MD::List2(a, b) => a.same_term(t) || b.same_term(t),
            MD::Kind(k) => t.rank() == *k,
            MD::NotConst(c) => !c.same_term(t),
            MD::NotKind(k) => t.rank() != *k,
            MD::Closure => matches!(t, ATerm::Bnode(_)) || matches!(t, ATerm::Lit(_, _, lex) if lex == "v"),
            MD::Datatype(d) => matches!(t, ATerm::Lit(dt, _, _) if dt == d),
            MD::Lang(l) => matches!(t, ATerm::Lit(_, Some(tag), _) if tag.eq_ignore_ascii_case(l)),
            MD::TripleWithP(p) => matches!(t, ATerm::Triple(tr) if p.same_term(&tr[1])),
        }
    }
    pub fn real(&self) -> EM {
        match self {
            MD::Any => EM::Any(Any),
            MD::Const(c) => EM::Const([c.to_simple()]),
            MD::OptSome(c) => EM::Opt(Some(c.to_simple())),
            MD::OptNone => EM::Opt(None),
            MD::List2(a, b) => EM::List2([a.to_simple(), b.to_simple()]),
            MD::Slice1(c) => EM::Slice1(vec![c.to_simple()]),
            MD::Kind(k) => EM::Kind(kind_of(*k)),
            MD::NotConst(c) => EM::NotConst(Not([c.to_simple()])),
            MD::NotKind(k) => EM::NotKind(Not(kind_of(*k))),
            MD::Closure => EM::Closure(closure_fn),
            MD::Datatype(d) => EM::Datatype(DatatypeMatcher::new(IriRef::new_unchecked(d.clone()))),
            MD::Lang(l) => EM::Lang(LanguageTagMatcher::new(LanguageTag::new_unchecked(l.clone()))),
            MD::TripleWithP(p) => EM::TripleWithP((Any, [p.to_simple()], Any)),
        }
    }
}

/// one enum wrapping the shipped matcher types: `matches` and `constant` delegate to the real
/// implementations, so that a single monomorphisation of `quads_matching` per store type
/// exercises all of them
pub enum EM {
    Any(Any),
    Const([ST; 1]),
    Opt(Option<ST>),
    List2([ST; 2]),
    Slice1(Vec<ST>),
    Kind(TermKind),
    NotConst(Not<[ST; 1]>),
    NotKind(Not<TermKind>),
    Closure(fn(SimpleTerm<'_>) -> bool),
    Datatype(DatatypeMatcher<String>),
    Lang(LanguageTagMatcher<String>),
    TripleWithP((Any, [ST; 1], Any)),
}
impl TermMatcher for EM {
    type Term = ST;
    fn matches<T2: Term + ?Sized>(&self, term: &T2) -> bool {
        match self {
            EM::Any(m) => TermMatcher::matches(m, term),
            EM::Const(m) => TermMatcher::matches(m, term),
            EM::Opt(m) => TermMatcher::matches(m, term),
            EM::List2(m) => TermMatcher::matches(m, term),
            EM::Slice1(m) => TermMatcher::matches(&&m[..], term),
            EM::Kind(m) => TermMatcher::matches(m, term),
            EM::NotConst(m) => TermMatcher::matches(m, term),
            EM::NotKind(m) => TermMatcher::matches(m, term),
            EM::Closure(m) => TermMatcher::matches(m, term),
            EM::Datatype(m) => TermMatcher::matches(m, term),
            EM::Lang(m) => TermMatcher::matches(m, term),
            EM::TripleWithP(m) => TermMatcher::matches(m, term),
        }
    }
    fn constant(&self) -> Option<&ST> {
        match self {
            EM::Any(m) => TermMatcher::constant(m),
            EM::Const(m) => TermMatcher::constant(m),
            EM::Opt(m) => TermMatcher::constant(m),
            EM::List2(m) => TermMatcher::constant(m),
            EM::Slice1(m) => {
                // `&[T]` is the matcher; its constant borrows from the slice
                if TermMatcher::constant(&&m[..]).is_some() { Some(&m[0]) } else { None }
            }
            EM::Kind(m) => TermMatcher::constant(m),
            EM::NotConst(m) => TermMatcher::constant(m),
            EM::NotKind(m) => TermMatcher::constant(m),
            EM::Closure(m) => TermMatcher::constant(m),
            EM::Datatype(m) => TermMatcher::constant(m),
            EM::Lang(m) => TermMatcher::constant(m),
            EM::TripleWithP(m) => TermMatcher::constant(m),
        }
    }
}

#[derive(Clone, Debug, PartialEq)]
pub enum GD {
    Any,
    /// `[GraphName<T>; 1]`
    Const(Option<ATerm>),
    /// `Option<GraphName<T>>`: Some(name) or None (matches nothing)
    OptOpt(Option<Option<ATerm>>),
    List2(Option<ATerm>, Option<ATerm>),
    Kind(Option<u8>),
    NotConst(Option<ATerm>),
    /// closure: graph name is some IRI
    Closure,
    /// a term matcher lifted with `.gn()`
    Term(MD),
    /// `Option<(S,P,O)>` = None: the default graph
    TripleNone,
}
fn gclosure_fn(g: GraphName<SimpleTerm<'_>>) -> bool {
    g.map(|g| g.is_iri()).unwrap_or(false)
}
impl GD {
    pub fn matches(&self, g: &Option<ATerm>) -> bool {
        let eq = |a: &Option<ATerm>, b: &Option<ATerm>| match (a, b) {
            (None, None) => true,
            (Some(a), Some(b)) => a.same_term(b),
            _ => false,
        };
        match self {
            GD::Any => true,
            GD::Const(c) => eq(c, g),
            GD::OptOpt(None) => false,
            GD::OptOpt(Some(c)) => eq(c, g),
            GD::List2(a, b) => eq(a, g) || eq(b, g),
            GD::Kind(k) => g.as_ref().map(|t| t.rank()) == *k,
            GD::NotConst(c) => !eq(c, g),
            GD::Closure => matches!(g, Some(ATerm::Iri(_))),
            GD::Term(m) => g.as_ref().map(|t| m.matches(t)).unwrap_or(false),
            GD::TripleNone => g.is_none(),
        }
    }
    pub fn real(&self) -> EG {
        let o = |x: &Option<ATerm>| x.as_ref().map(|t| t.to_simple());
        match self {
            GD::Any => EG::Any(Any),
            GD::Const(c) => EG::Const([o(c)]),
            GD::OptOpt(c) => EG::OptOpt(c.as_ref().map(o)),
            GD::List2(a, b) => EG::List2([o(a), o(b)]),
            GD::Kind(k) => EG::Kind(k.map(kind_of)),
            GD::NotConst(c) => EG::NotConst(Not([o(c)])),
            GD::Closure => EG::Closure(gclosure_fn),
            GD::Term(m) => EG::Term(m.real().gn()),
            GD::TripleNone => EG::TripleNone(None),
        }
    }
}
pub enum EG {
    Any(Any),
    Const([Option<ST>; 1]),
    OptOpt(Option<Option<ST>>),
    List2([Option<ST>; 2]),
    Kind(Option<TermKind>),
    NotConst(Not<[Option<ST>; 1]>),
    Closure(fn(GraphName<SimpleTerm<'_>>) -> bool),
    Term(sophia_api::term::matcher::TermMatcherGn<EM>),
    TripleNone(Option<(Any, Any, Any)>),
}
impl GraphNameMatcher for EG {
    type Term = ST;
    fn matches<T2: Term + ?Sized>(&self, g: GraphName<&T2>) -> bool {
        match self {
            EG::Any(m) => GraphNameMatcher::matches(m, g),
            EG::Const(m) => GraphNameMatcher::matches(m, g),
            EG::OptOpt(m) => GraphNameMatcher::matches(m, g),
            EG::List2(m) => GraphNameMatcher::matches(m, g),
            EG::Kind(m) => GraphNameMatcher::matches(m, g),
            EG::NotConst(m) => GraphNameMatcher::matches(m, g),
            EG::Closure(m) => GraphNameMatcher::matches(m, g),
            EG::Term(m) => GraphNameMatcher::matches(m, g),
            EG::TripleNone(m) => GraphNameMatcher::matches(m, g),
        }
    }
    fn constant(&self) -> Option<GraphName<&ST>> {
        match self {
            EG::Any(m) => GraphNameMatcher::constant(m),
            EG::Const(m) => GraphNameMatcher::constant(m),
            EG::OptOpt(m) => GraphNameMatcher::constant(m),
            EG::List2(m) => GraphNameMatcher::constant(m),
            EG::Kind(m) => GraphNameMatcher::constant(m),
            EG::NotConst(m) => GraphNameMatcher::constant(m),
            EG::Closure(m) => GraphNameMatcher::constant(m),
            EG::Term(m) => GraphNameMatcher::constant(m),
            EG::TripleNone(m) => GraphNameMatcher::constant(m).map(|g| g.map(|_| unreachable!())),
        }
    }
}

fn s_matchers() -> Vec<MD> {
    vec![
        MD::Any,
        MD::Const(i1()),
        MD::Const(bn()),
        MD::Const(qt_twin()),
        MD::Const(absent()),
        MD::OptSome(i2()),
        MD::List2(i1(), bn()),
        MD::Slice1(var()),
        MD::Kind(3),
        MD::NotConst(i1()),
        MD::Closure,
        MD::TripleWithP(i2()),
    ]
}
fn p_matchers() -> Vec<MD> {
    vec![MD::Any, MD::Const(i2()), MD::Const(i1()), MD::Const(absent()), MD::List2(i1(), i2()), MD::NotConst(i2()), MD::Kind(1), MD::OptNone]
}
fn o_matchers() -> Vec<MD> {
    vec![
        MD::Any,
        MD::Const(v_en_upper()),
        MD::Const(i1()),
        MD::Const(one()),
        MD::Const(bn()),
        MD::Const(absent()),
        MD::Slice1(v()),
        MD::List2(v(), v_en()),
        MD::Kind(2),
        MD::NotKind(2),
        MD::Lang("EN".into()),
        MD::Datatype(XSD_STRING.into()),
        MD::Datatype(RDF_LANGSTRING.into()),
        MD::Closure,
    ]
}
fn g_matchers() -> Vec<GD> {
    vec![
        GD::Any,
        GD::Const(None),
        GD::Const(Some(i1())),
        GD::Const(Some(bn())),
        GD::Const(Some(absent())),
        GD::OptOpt(Some(Some(i1()))),
        GD::OptOpt(None),
        GD::List2(None, Some(i1())),
        GD::Kind(Some(1)),
        GD::Kind(None),
        GD::NotConst(None),
        GD::Closure,
        GD::Term(MD::Kind(0)),
        GD::Term(MD::Const(i1())),
        GD::TripleNone,
    ]
}

/// patterns used by remove_matching / retain_matching operations (one per index family + others)
fn mutation_patterns() -> Vec<(MD, MD, MD, GD)> {
    vec![
        (MD::Const(i1()), MD::Any, MD::Any, GD::Any),
        (MD::Any, MD::Const(i2()), MD::Any, GD::Const(None)),
        (MD::Any, MD::Any, MD::Const(i1()), GD::Any),
        (MD::Any, MD::Any, MD::Any, GD::Const(Some(i1()))),
        (MD::Const(i1()), MD::Const(i2()), MD::Lang("EN".into()), GD::Any),
        (MD::Closure, MD::Any, MD::Any, GD::Any),
        (MD::Any, MD::Any, MD::NotKind(2), GD::NotConst(None)),
        (MD::Kind(3), MD::Any, MD::Any, GD::Kind(None)),
    ]
}

// ---------------------------------------------------------------------------------------------
// the store abstraction

pub trait Sut: Default + Send {
    const NAME: &'static str;
    const IS_SET: bool;
    const DATASET: bool;
    /// number of terms the index can hold (None = unbounded for our purposes)
    const CAP: Option<usize>;
    /// list-backed: does `remove` remove every occurrence?
    fn ins(&mut self, q: &AQuad) -> Result<bool, String>;
    fn rem(&mut self, q: &AQuad) -> Result<bool, String>;
    fn ins_all(&mut self, qs: &[AQuad]) -> Result<usize, String>;
    fn rem_all(&mut self, qs: &[AQuad]) -> Result<usize, String>;
    fn rem_matching(&mut self, m: &(MD, MD, MD, GD)) -> Result<usize, String>;
    fn ret_matching(&mut self, m: &(MD, MD, MD, GD)) -> Result<(), String>;
    fn all(&self) -> Result<Vec<AQuad>, String>;
    fn has(&self, q: &AQuad) -> Result<bool, String>;
    fn matching(&self, m: &(MD, MD, MD, GD)) -> Result<Vec<AQuad>, String>;
    fn enumerators(&self) -> Result<BTreeMap<&'static str, BTreeSet<ATerm>>, String>;
    fn index_key(&self) -> String {
        String::new()
    }
    fn from_source(qs: &[AQuad]) -> Result<Self, String>;
}

fn sq(q: &AQuad) -> SQuad {
    to_squad(q)
}
fn set_of<'a, I: Iterator<Item = Result<T, E>>, T: Term, E: std::fmt::Display>(it: I) -> Result<BTreeSet<ATerm>, String> {
    let mut s = BTreeSet::new();
    for t in it {
        s.insert(ATerm::from_term(t.map_err(|e| e.to_string())?).key());
    }
    Ok(s)
}

macro_rules! sut_dataset {
    ($ty:ty, $name:expr, $is_set:expr, $cap:expr, $ikey:expr) => {
        impl Sut for $ty {
            const NAME: &'static str = $name;
            const IS_SET: bool = $is_set;
            const DATASET: bool = true;
            const CAP: Option<usize> = $cap;
            fn ins(&mut self, q: &AQuad) -> Result<bool, String> {
                let ([s, p, o], g) = sq(q);
                MutableDataset::insert(self, s, p, o, g).map_err(|e| e.to_string())
            }
            fn rem(&mut self, q: &AQuad) -> Result<bool, String> {
                let ([s, p, o], g) = sq(q);
                MutableDataset::remove(self, s, p, o, g).map_err(|e| e.to_string())
            }
            fn ins_all(&mut self, qs: &[AQuad]) -> Result<usize, String> {
                let v: Vec<SQuad> = qs.iter().map(sq).collect();
                MutableDataset::insert_all(self, v.into_iter().into_source()).map_err(|e| e.to_string())
            }
            fn rem_all(&mut self, qs: &[AQuad]) -> Result<usize, String> {
                let v: Vec<SQuad> = qs.iter().map(sq).collect();
                MutableDataset::remove_all(self, v.into_iter().into_source()).map_err(|e| e.to_string())
            }
            fn rem_matching(&mut self, m: &(MD, MD, MD, GD)) -> Result<usize, String> {
                MutableDataset::remove_matching(self, m.0.real(), m.1.real(), m.2.real(), m.3.real()).map_err(|e| e.to_string())
            }
            fn ret_matching(&mut self, m: &(MD, MD, MD, GD)) -> Result<(), String> {
                MutableDataset::retain_matching(self, m.0.real(), m.1.real(), m.2.real(), m.3.real()).map_err(|e| e.to_string())
            }
            fn all(&self) -> Result<Vec<AQuad>, String> {
                let mut v = vec![];
                for q in self.quads() {
                    v.push(from_quad(&q.map_err(|e| e.to_string())?));
                }
                Ok(v)
            }
            fn has(&self, q: &AQuad) -> Result<bool, String> {
                let ([s, p, o], g) = sq(q);
                Dataset::contains(self, s, p, o, g).map_err(|e| e.to_string())
            }
            fn matching(&self, m: &(MD, MD, MD, GD)) -> Result<Vec<AQuad>, String> {
                let mut v = vec![];
                for q in self.quads_matching(m.0.real(), m.1.real(), m.2.real(), m.3.real()) {
                    v.push(from_quad(&q.map_err(|e| e.to_string())?));
                }
                Ok(v)
            }
            fn enumerators(&self) -> Result<BTreeMap<&'static str, BTreeSet<ATerm>>, String> {
                let mut m = BTreeMap::new();
                m.insert("subjects", set_of(self.subjects())?);
                m.insert("predicates", set_of(self.predicates())?);
                m.insert("objects", set_of(self.objects())?);
                m.insert("graph_names", set_of(self.graph_names())?);
                m.insert("iris", set_of(self.iris())?);
                m.insert("blank_nodes", set_of(self.blank_nodes())?);
                m.insert("literals", set_of(self.literals())?);
                m.insert("quoted_triples", set_of(self.quoted_triples())?);
                m.insert("variables", set_of(self.variables())?);
                Ok(m)
            }
            fn index_key(&self) -> String {
                let f: fn(&$ty) -> String = $ikey;
                f(self)
            }
            fn from_source(qs: &[AQuad]) -> Result<Self, String> {
                let v: Vec<SQuad> = qs.iter().map(sq).collect();
                <$ty as sophia_api::dataset::CollectibleDataset>::from_quad_source(v.into_iter().into_source()).map_err(|e| e.to_string())
            }
        }
    };
}
macro_rules! sut_graph {
    ($ty:ty, $name:expr, $is_set:expr, $cap:expr, $ikey:expr) => {
        impl Sut for $ty {
            const NAME: &'static str = $name;
            const IS_SET: bool = $is_set;
            const DATASET: bool = false;
            const CAP: Option<usize> = $cap;
            fn ins(&mut self, q: &AQuad) -> Result<bool, String> {
                let ([s, p, o], _) = sq(q);
                MutableGraph::insert(self, s, p, o).map_err(|e| e.to_string())
            }
            fn rem(&mut self, q: &AQuad) -> Result<bool, String> {
                let ([s, p, o], _) = sq(q);
                MutableGraph::remove(self, s, p, o).map_err(|e| e.to_string())
            }
            fn ins_all(&mut self, qs: &[AQuad]) -> Result<usize, String> {
                let v: Vec<[ST; 3]> = qs.iter().map(|q| sq(q).0).collect();
                MutableGraph::insert_all(self, v.into_iter().into_source()).map_err(|e| e.to_string())
            }
            fn rem_all(&mut self, qs: &[AQuad]) -> Result<usize, String> {
                let v: Vec<[ST; 3]> = qs.iter().map(|q| sq(q).0).collect();
                MutableGraph::remove_all(self, v.into_iter().into_source()).map_err(|e| e.to_string())
            }
            fn rem_matching(&mut self, m: &(MD, MD, MD, GD)) -> Result<usize, String> {
                MutableGraph::remove_matching(self, m.0.real(), m.1.real(), m.2.real()).map_err(|e| e.to_string())
            }
            fn ret_matching(&mut self, m: &(MD, MD, MD, GD)) -> Result<(), String> {
                MutableGraph::retain_matching(self, m.0.real(), m.1.real(), m.2.real()).map_err(|e| e.to_string())
            }
            fn all(&self) -> Result<Vec<AQuad>, String> {
                let mut v = vec![];
                for t in self.triples() {
                    v.push((from_triple(&t.map_err(|e| e.to_string())?), None));
                }
                Ok(v)
            }
            fn has(&self, q: &AQuad) -> Result<bool, String> {
                let ([s, p, o], _) = sq(q);
                Graph::contains(self, s, p, o).map_err(|e| e.to_string())
            }
            fn matching(&self, m: &(MD, MD, MD, GD)) -> Result<Vec<AQuad>, String> {
                let mut v = vec![];
                for t in self.triples_matching(m.0.real(), m.1.real(), m.2.real()) {
                    v.push((from_triple(&t.map_err(|e| e.to_string())?), None));
                }
                Ok(v)
            }
            fn enumerators(&self) -> Result<BTreeMap<&'static str, BTreeSet<ATerm>>, String> {
                let mut m = BTreeMap::new();
                m.insert("subjects", set_of(self.subjects())?);
                m.insert("predicates", set_of(self.predicates())?);
                m.insert("objects", set_of(self.objects())?);
                m.insert("iris", set_of(self.iris())?);
                m.insert("blank_nodes", set_of(self.blank_nodes())?);
                m.insert("literals", set_of(self.literals())?);
                m.insert("quoted_triples", set_of(self.quoted_triples())?);
                m.insert("variables", set_of(self.variables())?);
                Ok(m)
            }
            fn index_key(&self) -> String {
                let f: fn(&$ty) -> String = $ikey;
                f(self)
            }
            fn from_source(qs: &[AQuad]) -> Result<Self, String> {
                let v: Vec<[ST; 3]> = qs.iter().map(|q| sq(q).0).collect();
                <$ty as sophia_api::graph::CollectibleGraph>::from_triple_source(v.into_iter().into_source()).map_err(|e| e.to_string())
            }
        }
    };
}

fn ik<I: Index>(ix: &SimpleTermIndex<I>) -> String {
    ix.verif_terms().iter().map(|t| ATerm::from_term(t).nq()).collect::<Vec<_>>().join(" ")
}
type I32 = SimpleTermIndex<u32>;
type I16 = SimpleTermIndex<u16>;
type I3 = SimpleTermIndex<U3>;
sut_dataset!(GenericFastDataset<I32>, "FastDataset", true, None, |d| ik(d.verif_index()));
sut_dataset!(GenericLightDataset<I32>, "LightDataset", true, None, |d| ik(d.verif_index()));
sut_dataset!(GenericFastDataset<I16>, "small::FastDataset", true, None, |d| ik(d.verif_index()));
sut_dataset!(GenericLightDataset<I16>, "small::LightDataset", true, None, |d| ik(d.verif_index()));
sut_dataset!(GenericFastDataset<I3>, "FastDataset<3-bit index>", true, Some(7), |d| ik(d.verif_index()));
sut_dataset!(GenericLightDataset<I3>, "LightDataset<3-bit index>", true, Some(7), |d| ik(d.verif_index()));
sut_dataset!(HashSet<Spog<ST>>, "HashSet<Spog>", true, None, |_| String::new());
sut_dataset!(HashSet<Gspo<ST>>, "HashSet<Gspo>", true, None, |_| String::new());
sut_dataset!(BTreeSet<Spog<ST>>, "BTreeSet<Spog>", true, None, |_| String::new());
sut_dataset!(BTreeSet<Gspo<ST>>, "BTreeSet<Gspo>", true, None, |_| String::new());
sut_dataset!(Vec<Spog<ST>>, "Vec<Spog>", false, None, |_| String::new());
sut_dataset!(Vec<Gspo<ST>>, "Vec<Gspo>", false, None, |_| String::new());
sut_graph!(GenericFastGraph<I32>, "FastGraph", true, None, |d| ik(d.verif_index()));
sut_graph!(GenericLightGraph<I32>, "LightGraph", true, None, |d| ik(d.verif_index()));
sut_graph!(GenericFastGraph<I16>, "small::FastGraph", true, None, |d| ik(d.verif_index()));
sut_graph!(GenericLightGraph<I16>, "small::LightGraph", true, None, |d| ik(d.verif_index()));
sut_graph!(GenericFastGraph<I3>, "FastGraph<3-bit index>", true, Some(7), |d| ik(d.verif_index()));
sut_graph!(GenericLightGraph<I3>, "LightGraph<3-bit index>", true, Some(7), |d| ik(d.verif_index()));
sut_graph!(HashSet<[ST; 3]>, "HashSet<[T;3]>", true, None, |_| String::new());
sut_graph!(BTreeSet<[ST; 3]>, "BTreeSet<[T;3]>", true, None, |_| String::new());
sut_graph!(Vec<[ST; 3]>, "Vec<[T;3]>", false, None, |_| String::new());

// ---------------------------------------------------------------------------------------------
// the reference

#[derive(Clone, Debug, Default)]
pub struct RefSet {
    /// quads (normalised keys) in insertion order; duplicates only for list stores
    quads: Vec<AQuad>,
    /// model of the term index (keys) -- only used when the capacity is bounded
    index: Vec<ATerm>,
}
impl RefSet {
    fn project(q: &AQuad, dataset: bool) -> AQuad {
        let k = quad_key(q);
        if dataset { k } else { (k.0, None) }
    }
    fn contains(&self, q: &AQuad) -> bool {
        self.quads.iter().any(|x| x == q)
    }
    fn count(&self, q: &AQuad) -> usize {
        self.quads.iter().filter(|x| *x == q).count()
    }
    /// Err(()) = index full
    fn ensure_terms(&mut self, q: &AQuad, cap: Option<usize>) -> Result<(), ()> {
        let Some(cap) = cap else { return Ok(()) };
        let mut terms: Vec<&ATerm> = q.0.iter().collect();
        if let Some(g) = &q.1 {
            terms.push(g);
        }
        for t in terms {
            if !self.index.contains(t) {
                if self.index.len() >= cap {
                    return Err(());
                }
                self.index.push(t.clone());
            }
        }
        Ok(())
    }
    fn matching(&self, m: &(MD, MD, MD, GD), dataset: bool) -> Vec<AQuad> {
        self.quads.iter().filter(|q| m.0.matches(&q.0[0]) && m.1.matches(&q.0[1]) && m.2.matches(&q.0[2]) && (!dataset || m.3.matches(&q.1))).cloned().collect()
    }
}

pub struct Sys<S: Sut> {
    s: S,
    r: RefSet,
}

#[derive(Clone, Debug)]
enum Op {
    Insert(usize),
    Remove(usize),
    InsertAll(usize, usize),
    RemoveAll(usize, usize),
    RemoveMatching(usize),
    RetainMatching(usize),
}
fn batch_pairs() -> Vec<(usize, usize)> {
    // 2-subsets of the core {q0, q1, q2 (= q1 by case folding), q3}, incl. the duplicate-in-batch pair
    vec![(0, 1), (0, 2), (0, 3), (1, 2), (1, 3), (2, 3)]
}
fn ops() -> Vec<Op> {
    let mut v = vec![];
    for q in 0..universe().len() {
        v.push(Op::Insert(q));
    }
    for q in 0..universe().len() {
        v.push(Op::Remove(q));
    }
    for (a, b) in batch_pairs() {
        v.push(Op::InsertAll(a, b));
        v.push(Op::RemoveAll(a, b));
    }
    for i in 0..mutation_patterns().len() {
        v.push(Op::RemoveMatching(i));
        v.push(Op::RetainMatching(i));
    }
    v
}

pub struct Model<S: Sut> {
    slices: u64,
    slice: u64,
    _p: PhantomData<S>,
}
unsafe impl<S: Sut> Sync for Model<S> {}

fn ms(v: &[AQuad], dataset: bool) -> BTreeMap<AQuad, usize> {
    let mut m = BTreeMap::new();
    for q in v {
        *m.entry(RefSet::project(q, dataset)).or_insert(0) += 1;
    }
    m
}

impl<S: Sut> Model<S> {
    /// check content of the real store against the reference
    fn check_content(&self, sys: &Sys<S>, what: &str, out: &mut Vec<(String, String)>) {
        match sys.s.all() {
            Err(e) => out.push((format!("{}:quads-error", S::NAME), format!("{what}: quads() failed: {e}"))),
            Ok(got) => {
                let g = ms(&got, S::DATASET);
                let e = ms(&sys.r.quads, S::DATASET);
                if g != e {
                    out.push((
                        format!("{}:content", S::NAME),
                        format!("{what}: store holds {:?}, the reference set holds {:?}", quads_nq(&got), quads_nq(&sys.r.quads)),
                    ));
                }
            }
        }
    }
}

impl<S: Sut> HistModel for Model<S> {
    type Sys = Sys<S>;
    fn n_ops(&self) -> usize {
        ops().len()
    }
    fn op_name(&self, op: usize) -> String {
        match &ops()[op] {
            Op::Insert(q) => format!("insert(q{q})"),
            Op::Remove(q) => format!("remove(q{q})"),
            Op::InsertAll(a, b) => format!("insert_all([q{a}, q{b}])"),
            Op::RemoveAll(a, b) => format!("remove_all([q{a}, q{b}])"),
            Op::RemoveMatching(i) => format!("remove_matching(pattern{i})"),
            Op::RetainMatching(i) => format!("retain_matching(pattern{i})"),
        }
    }
    fn fresh(&self) -> Sys<S> {
        Sys { s: S::default(), r: RefSet::default() }
    }
    fn apply(&self, sys: &mut Sys<S>, opi: usize, check: bool, out: &mut Vec<(String, String)>) -> bool {
        let u = universe();
        let op = ops()[opi].clone();
        let name = self.op_name(opi);
        let ds = S::DATASET;
        // graphs only see the default-graph projection; skip operations that only differ by graph name
        let ref_insert = |r: &mut RefSet, q: &AQuad| -> Result<bool, ()> {
            let k = RefSet::project(q, ds);
            r.ensure_terms(&k, S::CAP)?;
            if S::IS_SET && r.contains(&k) {
                Ok(false)
            } else {
                r.quads.push(k);
                Ok(true)
            }
        };
        match op {
            Op::Insert(q) => {
                let got = sys.s.ins(&u[q]);
                let exp = ref_insert(&mut sys.r, &u[q]);
                if check {
                    match (&got, &exp) {
                        (Ok(g), Ok(e)) => {
                            if S::IS_SET && g != e {
                                out.push((format!("{}:insert-flag", S::NAME), format!("{name} returned {g}, the set changed: {e}")));
                            }
                        }
                        (Err(_), Err(())) => {}
                        _ => out.push((format!("{}:insert-result", S::NAME), format!("{name} returned {got:?}, reference says {exp:?} (Err = term index full)"))),
                    }
                }
            }
            Op::Remove(q) => {
                let k = RefSet::project(&u[q], ds);
                let before = sys.r.count(&k);
                let got = sys.s.rem(&u[q]);
                if S::IS_SET {
                    sys.r.quads.retain(|x| *x != k);
                    if check && got != Ok(before > 0) {
                        out.push((format!("{}:remove-flag", S::NAME), format!("{name} returned {got:?}, the set changed: {}", before > 0)));
                    }
                } else {
                    // list semantics: other elements untouched; the number of occurrences of the removed
                    // quad strictly decreases if it was > 0 (one or all may go): follow the store
                    let after = sys.s.all().map(|v| v.iter().filter(|x| RefSet::project(x, ds) == k).count()).unwrap_or(usize::MAX);
                    if check && ((before > 0 && after >= before) || (before == 0 && after != 0)) {
                        out.push((format!("{}:list-remove", S::NAME), format!("{name}: {before} occurrence(s) before, {after} after")));
                    }
                    let mut kept = 0;
                    sys.r.quads.retain(|x| {
                        if *x == k {
                            kept += 1;
                            kept <= after
                        } else {
                            true
                        }
                    });
                }
            }
            Op::InsertAll(a, b) => {
                let batch = [u[a].clone(), u[b].clone()];
                let got = sys.s.ins_all(&batch);
                let mut exp: Result<usize, ()> = Ok(0);
                for q in &batch {
                    match ref_insert(&mut sys.r, q) {
                        Ok(true) => exp = exp.map(|c| c + 1),
                        Ok(false) => {}
                        Err(()) => {
                            exp = Err(());
                            break;
                        }
                    }
                }
                if check {
                    match (&got, &exp) {
                        (Ok(g), Ok(e)) => {
                            if S::IS_SET && g != e {
                                out.push((format!("{}:insert_all-count", S::NAME), format!("{name} returned {g}, {e} quads were really added")));
                            }
                        }
                        (Err(_), Err(())) => {}
                        _ => out.push((format!("{}:insert_all-result", S::NAME), format!("{name} returned {got:?}, reference says {exp:?}"))),
                    }
                }
            }
            Op::RemoveAll(a, b) => {
                let batch = [u[a].clone(), u[b].clone()];
                if !S::IS_SET {
                    return false;
                }
                let got = sys.s.rem_all(&batch);
                let mut exp = 0;
                for q in &batch {
                    let k = RefSet::project(q, ds);
                    if sys.r.contains(&k) {
                        exp += 1;
                        sys.r.quads.retain(|x| *x != k);
                    }
                }
                if check && got != Ok(exp) {
                    out.push((format!("{}:remove_all-count", S::NAME), format!("{name} returned {got:?}, {exp} quads were really removed")));
                }
            }
            Op::RemoveMatching(i) => {
                if !S::IS_SET {
                    return false;
                }
                let m = &mutation_patterns()[i];
                let matching = sys.r.matching(m, ds);
                let got = sys.s.rem_matching(m);
                sys.r.quads.retain(|x| !matching.contains(x));
                if check && got != Ok(matching.len()) {
                    out.push((format!("{}:remove_matching-count", S::NAME), format!("{name} ({m:?}) returned {got:?}, {} quads matched", matching.len())));
                }
            }
            Op::RetainMatching(i) => {
                if !S::IS_SET {
                    return false;
                }
                let m = &mutation_patterns()[i];
                let matching = sys.r.matching(m, ds);
                let got = sys.s.ret_matching(m);
                sys.r.quads.retain(|x| matching.contains(x));
                if check && got.is_err() {
                    out.push((format!("{}:retain_matching-result", S::NAME), format!("{name} ({m:?}) returned {got:?}")));
                }
            }
        }
        if check {
            self.check_content(sys, &name, out);
        }
        true
    }
    fn key(&self, sys: &Sys<S>) -> String {
        let mut q = quads_nq(&sys.r.quads);
        if S::IS_SET {
            q.sort();
        }
        format!("{}##{}", q.join("\n"), sys.s.index_key())
    }
    fn battery(&self, sys: &Sys<S>, out: &mut Vec<(String, String)>) -> u64 {
        let mut n = 0u64;
        let ds = S::DATASET;
        self.check_content(sys, "state", out);
        // contains() for the whole universe
        for q in universe() {
            let k = RefSet::project(&q, ds);
            let got = sys.s.has(&q);
            if got != Ok(sys.r.contains(&k)) {
                out.push((format!("{}:contains", S::NAME), format!("contains({}) = {got:?}, reference {}", quad_nq(&q), sys.r.contains(&k))));
            }
            n += 1;
        }
        // term enumerators, as sets
        match sys.s.enumerators() {
            Err(e) => out.push((format!("{}:enumerator-error", S::NAME), e)),
            Ok(en) => {
                let mut exp: BTreeMap<&'static str, BTreeSet<ATerm>> = BTreeMap::new();
                fn atoms(t: &ATerm, f: &mut dyn FnMut(&ATerm)) {
                    f(t);
                    if let ATerm::Triple(tr) = t {
                        for c in tr.iter() {
                            atoms(c, f);
                        }
                    }
                }
                for q in &sys.r.quads {
                    exp.entry("subjects").or_default().insert(q.0[0].clone());
                    exp.entry("predicates").or_default().insert(q.0[1].clone());
                    exp.entry("objects").or_default().insert(q.0[2].clone());
                    if let Some(g) = &q.1 {
                        exp.entry("graph_names").or_default().insert(g.clone());
                    }
                    for t in q.0.iter().chain(q.1.iter()) {
                        atoms(t, &mut |a| {
                            let k = match a {
                                ATerm::Iri(_) => "iris",
                                ATerm::Bnode(_) => "blank_nodes",
                                ATerm::Lit(..) => "literals",
                                ATerm::Triple(_) => "quoted_triples",
                                ATerm::Var(_) => "variables",
                            };
                            exp.entry(k).or_default().insert(a.clone());
                        });
                    }
                }
                for (k, got) in &en {
                    let e = exp.get(k).cloned().unwrap_or_default();
                    if *got != e {
                        out.push((format!("{}:enumerator:{k}", S::NAME), format!("{k}() = {:?}, expected {:?}", got.iter().map(|t| t.nq()).collect::<Vec<_>>(), e.iter().map(|t| t.nq()).collect::<Vec<_>>())));
                    }
                    n += 1;
                }
            }
        }
        // pattern queries: full product of matcher kinds per position (a deterministic slice of it
        // per state in the quick tier -- the slice depends on the state, so all combinations are
        // exercised across states)
        let sm = s_matchers();
        let pm = p_matchers();
        let om = o_matchers();
        let gm = if ds { g_matchers() } else { vec![GD::Any] };
        let salt = fnv(&self.key(sys));
        let mut idx: u64 = 0;
        for s in &sm {
            for p in &pm {
                for o in &om {
                    for g in &gm {
                        idx += 1;
                        if self.slices > 1 && (idx.wrapping_add(salt)) % self.slices != self.slice {
                            continue;
                        }
                        let m = (s.clone(), p.clone(), o.clone(), g.clone());
                        let exp = sys.r.matching(&m, ds);
                        let got = sys.s.matching(&m);
                        n += 1;
                        let ok = match &got {
                            Ok(g) => ms(g, ds) == ms(&exp, ds),
                            Err(_) => false,
                        };
                        if !ok {
                            let shape: String = [s.real().constant().is_some(), p.real().constant().is_some(), o.real().constant().is_some(), ds && g.real().constant().is_some()]
                                .iter()
                                .map(|b| if *b { 'c' } else { '_' })
                                .collect();
                            out.push((
                                format!("{}:matching:{shape}", S::NAME),
                                format!("quads_matching({m:?}) = {:?}, expected {:?}", got.as_ref().map(|v| quads_nq(v)), quads_nq(&exp)),
                            ));
                        }
                    }
                }
            }
        }
        n
    }
}

fn run_model<S: Sut>(depth: usize, slices: u64, rep: &mut Report) {
    let m = Model::<S> { slices, slice: rep.seed % slices.max(1), _p: PhantomData };
    let o = bfs(&m, depth, 2_000_000);
    rep.stats.add("states", o.states);
    rep.stats.add("transitions", o.transitions);
    rep.stats.add("validated", o.comparisons + o.transitions);
    rep.stats.add(&format!("states[{}]", S::NAME), o.states);
    rep.stats.add("nontrivial", o.states.saturating_sub(1));
    rep.stats.max("max_depth", o.max_depth as u64);
    if let Some(h) = o.sample_histories.last() {
        rep.stats.sample(json!({"store": S::NAME, "history": m.history_json(h)}));
    }
    for mut v in o.violations {
        v.case["store"] = json!(S::NAME);
        rep.stats.outcome(&v.sig);
        rep.violations.push(v);
    }
    rep.stats.outcome(&format!("{}:explored", S::NAME));
    // alternative initial state: from_quad_source / from_triple_source of every 3-sequence prefix of the universe
    let u = universe();
    for start in 0..u.len() {
        let seq: Vec<AQuad> = (0..3).map(|k| u[(start + k * 3) % u.len()].clone()).collect();
        let got = guarded(|| S::from_source(&seq));
        let mut r = RefSet::default();
        let mut full = false;
        for q in &seq {
            let k = RefSet::project(q, S::DATASET);
            if r.ensure_terms(&k, S::CAP).is_err() {
                full = true;
                break;
            }
            if !S::IS_SET || !r.contains(&k) {
                r.quads.push(k);
            }
        }
        rep.stats.inc("validated");
        match got {
            Err(p) => rep.violations.push(Violation::new(format!("{}:collect-panic", S::NAME), p, json!({"store": S::NAME, "collect": quads_nq(&seq)}))),
            Ok(Err(_)) if full => {}
            Ok(Ok(s)) if !full => {
                let sys = Sys { s, r };
                let mut vs = vec![];
                m.check_content(&sys, "from_source", &mut vs);
                for (sig, d) in vs {
                    rep.violations.push(Violation::new(sig, d, json!({"store": S::NAME, "collect": quads_nq(&seq)})));
                }
            }
            Ok(other) => rep.violations.push(Violation::new(
                format!("{}:collect-result", S::NAME),
                format!("collecting {:?}: got {:?}, index full expected: {full}", quads_nq(&seq), other.map(|_| "Ok").map_err(|e| e)),
                json!({"store": S::NAME, "collect": quads_nq(&seq)}),
            )),
        }
    }
}

/// histories that exhaust a 16-bit term index
fn exhaust_16bit<S: Sut>(rep: &mut Report, depth: usize) {
    use rayon::prelude::*;
    let filler = |i: usize| -> AQuad { ([ATerm::iri(&format!("http://ex.org/f/{}", 3 * i)), ATerm::iri(&format!("http://ex.org/f/{}", 3 * i + 1)), ATerm::iri(&format!("http://ex.org/f/{}", 3 * i + 2))], None) };
    // 21844 quads x 3 terms = 65532 terms: 3 free entries remain (MAX = 65535 is reserved)
    let nfill = 21844;
    let fresh = |k: usize| ATerm::iri(&format!("http://ex.org/new/{k}"));
    // ops introduce 0..4 new terms
    let opq: Vec<AQuad> = vec![
        filler(0),                                            // 0 new terms, present
        ([fresh(1), ATerm::iri("http://ex.org/f/1"), ATerm::iri("http://ex.org/f/2")], None), // 1 new
        ([fresh(1), fresh(2), ATerm::iri("http://ex.org/f/2")], None),                          // 2 new (1 shared)
        ([fresh(3), fresh(4), fresh(5)], None),                                                 // 3 new
        ([fresh(6), fresh(7), fresh(8)], Some(fresh(9))),                                       // 4 new
        ([fresh(1), ATerm::iri("http://ex.org/f/1"), fresh(2)], None),
    ];
    let nops = opq.len() * 2;
    let mut hists: Vec<Vec<usize>> = vec![];
    words_upto(nops, depth, &mut |w| hists.push(w.to_vec()));
    let results: Vec<(Vec<Violation>, u64)> = hists
        .par_iter()
        .map(|h| {
          match guarded(|| {
            let mut out = vec![];
            let mut s = S::default();
            let mut count = nfill;
            let mut nterms = nfill * 3;
            for i in 0..nfill {
                if s.ins(&filler(i)) != Ok(true) {
                    out.push(Violation::new(format!("{}:16bit-prefill", S::NAME), format!("prefill insert #{i} failed"), json!({})));
                    return (out, 0);
                }
            }
            let cap = 65535usize;
            let mut extra: Vec<AQuad> = vec![];
            let mut index_extra: Vec<ATerm> = vec![];
            let mut n = 0;
            for op in h {
                let q = &opq[op / 2];
                let qk = RefSet::project(q, S::DATASET);
                let insert = op % 2 == 0;
                let case = json!({"store": S::NAME, "exhaust16": h});
                if insert {
                    // reference
                    let mut full = false;
                    for t in qk.0.iter().chain(qk.1.iter()) {
                        let known = matches!(t, ATerm::Iri(i) if i.starts_with("http://ex.org/f/")) || index_extra.contains(t);
                        if !known {
                            if nterms >= cap {
                                full = true;
                                break;
                            }
                            nterms += 1;
                            index_extra.push(t.clone());
                        }
                    }
                    let present = qk == filler(0) || extra.contains(&qk);
                    let got = guarded(|| s.ins(q));
                    match got {
                        Err(p) => out.push(Violation::new(format!("{}:16bit-panic", S::NAME), format!("insert panicked: {p}"), case.clone())),
                        Ok(r) => {
                            if full {
                                if r.is_ok() {
                                    out.push(Violation::new(format!("{}:16bit-no-error", S::NAME), format!("insert of {} succeeded although the index is full", quad_nq(q)), case.clone()));
                                }
                            } else if r != Ok(!present) {
                                out.push(Violation::new(format!("{}:16bit-flag", S::NAME), format!("insert of {} returned {r:?}, expected {}", quad_nq(q), !present), case.clone()));
                            }
                            if !full && !present {
                                extra.push(qk.clone());
                                count += 1;
                            }
                        }
                    }
                } else {
                    let present = qk == filler(0) || extra.contains(&qk);
                    let got = guarded(|| s.rem(q));
                    if qk == filler(0) {
                        // keep the prefill intact: re-insert right away
                        let _ = s.ins(q);
                    } else if present {
                        extra.retain(|x| *x != qk);
                        count -= 1;
                    }
                    if got != Ok(Ok(present)) {
                        out.push(Violation::new(format!("{}:16bit-remove", S::NAME), format!("remove of {} returned {got:?}, expected {present}", quad_nq(q)), case.clone()));
                    }
                }
                // the quad set equals the reference after every step (an Err leaves it unchanged)
                let all = guarded(|| s.all());
                match all {
                    Ok(Ok(v)) => {
                        if v.len() != count {
                            out.push(Violation::new(format!("{}:16bit-size", S::NAME), format!("store holds {} quads, expected {count}", v.len()), case.clone()));
                        }
                        for e in &extra {
                            if s.has(e) != Ok(true) {
                                out.push(Violation::new(format!("{}:16bit-lost", S::NAME), format!("{} is missing", quad_nq(e)), case.clone()));
                            }
                        }
                        for q in &opq {
                            let k = RefSet::project(q, S::DATASET);
                            let exp = k == filler(0) || extra.contains(&k);
                            if s.has(q) != Ok(exp) {
                                out.push(Violation::new(format!("{}:16bit-contains", S::NAME), format!("contains({}) != {exp}", quad_nq(q)), case.clone()));
                            }
                        }
                    }
                    other => out.push(Violation::new(format!("{}:16bit-quads", S::NAME), format!("quads() failed: {other:?}"), case.clone())),
                }
                n += 1;
            }
            (out, n)
          }) {
            Ok(r) => r,
            Err(p) => (vec![Violation::new(format!("{}:16bit-panic", S::NAME), format!("a step of the history panicked: {p}"), json!({"store": S::NAME, "exhaust16": h}))], 1),
          }
        })
        .collect();
    for (vs, n) in results {
        rep.stats.add("validated", n);
        rep.stats.add("transitions", n);
        rep.stats.inc("states");
        rep.stats.inc("exhaust16_histories");
        rep.violations.extend(vs);
    }
}

pub fn run(tier: Tier) -> Report {
    let mut rep = Report::new("C01", tier);
    if let Err(e) = self_test() {
        eprintln!("ENGINE ERROR: BFS self-test failed: {e}");
        std::process::exit(2);
    }
    // indexed stores: hidden state (index order) multiplies the states; plain collections: content only
    let (d_idx, d_col, d_vec, slices) = match tier {
        Tier::Quick => (3, 3, 3, 16),
        Tier::Thorough => (4, 5, 4, 4),
    };
    run_model::<GenericFastDataset<I32>>(d_idx, slices, &mut rep);
    run_model::<GenericLightDataset<I32>>(d_idx, slices, &mut rep);
    run_model::<GenericFastDataset<I16>>(d_idx, slices, &mut rep);
    run_model::<GenericLightDataset<I16>>(d_idx, slices, &mut rep);
    run_model::<GenericFastDataset<I3>>(d_idx + 1, slices, &mut rep);
    run_model::<GenericLightDataset<I3>>(d_idx + 1, slices, &mut rep);
    run_model::<HashSet<Spog<ST>>>(d_col, slices, &mut rep);
    run_model::<HashSet<Gspo<ST>>>(d_col, slices, &mut rep);
    run_model::<BTreeSet<Spog<ST>>>(d_col, slices, &mut rep);
    run_model::<BTreeSet<Gspo<ST>>>(d_col, slices, &mut rep);
    run_model::<Vec<Spog<ST>>>(d_vec, slices, &mut rep);
    run_model::<Vec<Gspo<ST>>>(d_vec, slices, &mut rep);
    run_model::<GenericFastGraph<I32>>(d_idx, slices, &mut rep);
    run_model::<GenericLightGraph<I32>>(d_idx, slices, &mut rep);
    run_model::<GenericFastGraph<I16>>(d_idx, slices, &mut rep);
    run_model::<GenericLightGraph<I16>>(d_idx, slices, &mut rep);
    run_model::<GenericFastGraph<I3>>(d_idx + 1, slices, &mut rep);
    run_model::<GenericLightGraph<I3>>(d_idx + 1, slices, &mut rep);
    run_model::<HashSet<[ST; 3]>>(d_col, slices, &mut rep);
    run_model::<BTreeSet<[ST; 3]>>(d_col, slices, &mut rep);
    run_model::<Vec<[ST; 3]>>(d_vec, slices, &mut rep);
    let d16 = tier.pick(2, 3);
    exhaust_16bit::<GenericLightDataset<I16>>(&mut rep, d16);
    exhaust_16bit::<GenericFastDataset<I16>>(&mut rep, tier.pick(1, 2));
    exhaust_16bit::<GenericLightGraph<I16>>(&mut rep, d16);
    rep.rule = format!(
        "explicit-state BFS over histories of {} operations (insert/remove of {} quads sharing terms across positions incl. case-variant language tags, nested quoted triples, a variable, default/IRI/blank graph names; insert_all/remove_all of 2-batches incl. a duplicate inside the batch; remove_matching/retain_matching under {} patterns) on 21 store types (Fast/Light x Dataset/Graph x u32/u16/3-bit index, Hash/BTree sets of Spog/Gspo/[T;3], Vec of Spog/Gspo/[T;3]); canonical key = content + term-index order (hook); every state: contains() for the universe, 9 term enumerators as sets, and quads_matching over the product of {}x{}x{}x{} real matcher kinds (1/{} of the product per state, the slice depending on the state) against the reference filter; plus from_quad_source initial states and histories of depth <= {} on a store pre-filled with 65532 terms",
        ops().len(),
        universe().len(),
        mutation_patterns().len(),
        s_matchers().len(),
        p_matchers().len(),
        o_matchers().len(),
        g_matchers().len(),
        slices,
        d16
    );
    rep.bounds = json!({"depth_indexed": d_idx, "depth_3bit": d_idx + 1, "depth_collections": d_col, "depth_vec": d_vec, "battery_slices": slices, "depth_16bit": d16});
    rep.assumptions = vec![
        "Vec-backed stores are compared as lists: insert appends, remove decreases the number of occurrences (one or all), other elements untouched; their flags are not compared".into(),
        "term enumerators are compared as sets (the API allows duplicates there)".into(),
    ];
    rep
}

pub fn replay(case: &Value) -> Vec<Violation> {
    let store = case["store"].as_str().unwrap_or("").to_string();
    let hist: Vec<String> = case["history"].as_array().map(|a| a.iter().filter_map(|x| x.as_str().map(String::from)).collect()).unwrap_or_default();
    fn go<S: Sut>(hist: &[String]) -> Vec<Violation> {
        let m = Model::<S> { slices: 1, slice: 0, _p: PhantomData };
        let names: Vec<String> = (0..m.n_ops()).map(|i| m.op_name(i)).collect();
        let mut sys = m.fresh();
        let mut vs = vec![];
        for h in hist {
            let Some(op) = names.iter().position(|n| n == h) else {
                return vec![Violation::new("replay-error", format!("unknown op {h}"), json!({}))];
            };
            m.apply(&mut sys, op, true, &mut vs);
            m.battery(&sys, &mut vs);
        }
        vs.into_iter().map(|(s, d)| Violation::new(s, d, json!({"store": S::NAME, "history": hist}))).collect()
    }
    macro_rules! dispatch {
        ($($ty:ty),*) => {
            $( if store == <$ty as Sut>::NAME { return go::<$ty>(&hist); } )*
        };
    }
    dispatch!(
        GenericFastDataset<I32>, GenericLightDataset<I32>, GenericFastDataset<I16>, GenericLightDataset<I16>, GenericFastDataset<I3>, GenericLightDataset<I3>,
        HashSet<Spog<ST>>, HashSet<Gspo<ST>>, BTreeSet<Spog<ST>>, BTreeSet<Gspo<ST>>, Vec<Spog<ST>>, Vec<Gspo<ST>>,
        GenericFastGraph<I32>, GenericLightGraph<I32>, GenericFastGraph<I16>, GenericLightGraph<I16>, GenericFastGraph<I3>, GenericLightGraph<I3>,
        HashSet<[ST; 3]>, BTreeSet<[ST; 3]>, Vec<[ST; 3]>
    );
    vec![Violation::new("replay-error", format!("unknown store {store} (or a non-history case)"), json!({}))]
}

