use crate::fw::*;
#[cfg(all(not(feature = "slim"), any(not(feature = "single"), feature = "p01")))]
pub mod c01;
#[cfg(all(not(feature = "slim"), any(not(feature = "single"), feature = "p02")))]
pub mod c02;
#[cfg(all(not(feature = "slim"), any(not(feature = "single"), feature = "p03")))]
pub mod c03;
#[cfg(all(not(feature = "slim"), any(not(feature = "single"), feature = "p04")))]
pub mod c04;
#[cfg(all(not(feature = "slim"), any(not(feature = "single"), feature = "p05")))]
pub mod c05;
#[cfg(all(not(feature = "slim"), any(not(feature = "single"), feature = "p07")))]
pub mod c07;
#[cfg(any(not(feature = "single"), feature = "p08"))]
pub mod c08;
#[cfg(all(not(feature = "slim"), any(not(feature = "single"), feature = "p09")))]
pub mod c09;
#[cfg(all(not(feature = "slim"), any(not(feature = "single"), feature = "p10")))]
pub mod c10;
#[cfg(all(not(feature = "slim"), any(not(feature = "single"), feature = "p11")))]
pub mod c11;
#[cfg(all(not(feature = "slim"), any(not(feature = "single"), feature = "p12")))]
pub mod c12;
#[cfg(all(not(feature = "slim"), any(not(feature = "single"), feature = "p13")))]
pub mod c13;
#[cfg(all(not(feature = "slim"), any(not(feature = "single"), feature = "p14")))]
pub mod c14;
#[cfg(all(not(feature = "slim"), any(not(feature = "single"), feature = "p15")))]
pub mod c15;
#[cfg(any(not(feature = "single"), feature = "p16"))]
pub mod c16;
#[cfg(all(not(feature = "slim"), any(not(feature = "single"), feature = "p17")))]
pub mod c17;
#[cfg(all(not(feature = "slim"), any(not(feature = "single"), feature = "p18")))]
pub mod c18;
#[cfg(all(not(feature = "slim"), any(not(feature = "single"), feature = "p19")))]
pub mod c19;
#[cfg(all(not(feature = "slim"), any(not(feature = "single"), feature = "p20")))]
pub mod c20;

pub fn run(prop: &str, tier: Tier) -> Report {
    match prop {
        #[cfg(all(not(feature = "slim"), any(not(feature = "single"), feature = "p01")))]
        "C01" => c01::run(tier),
        #[cfg(all(not(feature = "slim"), any(not(feature = "single"), feature = "p02")))]
        "C02" => c02::run(tier),
        #[cfg(all(not(feature = "slim"), any(not(feature = "single"), feature = "p03")))]
        "C03" => c03::run(tier),
        #[cfg(all(not(feature = "slim"), any(not(feature = "single"), feature = "p04")))]
        "C04" => c04::run(tier),
        #[cfg(all(not(feature = "slim"), any(not(feature = "single"), feature = "p05")))]
        "C05" => c05::run(tier),
        #[cfg(all(not(feature = "slim"), any(not(feature = "single"), feature = "p06")))]
        "C06" => c05::run_c06(tier),
        #[cfg(all(not(feature = "slim"), any(not(feature = "single"), feature = "p07")))]
        "C07" => c07::run(tier),
        #[cfg(all(not(feature = "slim"), any(not(feature = "single"), feature = "p09")))]
        "C09" => c09::run(tier),
        #[cfg(all(not(feature = "slim"), any(not(feature = "single"), feature = "p10")))]
        "C10" => c10::run(tier),
        #[cfg(all(not(feature = "slim"), any(not(feature = "single"), feature = "p11")))]
        "C11" => c11::run(tier),
        #[cfg(all(not(feature = "slim"), any(not(feature = "single"), feature = "p12")))]
        "C12" => c12::run(tier),
        #[cfg(all(not(feature = "slim"), any(not(feature = "single"), feature = "p13")))]
        "C13" => c13::run(tier),
        #[cfg(all(not(feature = "slim"), any(not(feature = "single"), feature = "p14")))]
        "C14" => c14::run(tier),
        #[cfg(all(not(feature = "slim"), any(not(feature = "single"), feature = "p15")))]
        "C15" => c15::run(tier),
        #[cfg(any(not(feature = "single"), feature = "p08"))]
        "C08" => c08::run(tier),
        #[cfg(any(not(feature = "single"), feature = "p16"))]
        "C16" => c16::run(tier),
        #[cfg(all(not(feature = "slim"), any(not(feature = "single"), feature = "p17")))]
        "C17" => c17::run(tier),
        #[cfg(all(not(feature = "slim"), any(not(feature = "single"), feature = "p18")))]
        "C18" => c18::run(tier),
        #[cfg(all(not(feature = "slim"), any(not(feature = "single"), feature = "p19")))]
        "C19" => c19::run(tier),
        #[cfg(all(not(feature = "slim"), any(not(feature = "single"), feature = "p20")))]
        "C20" => c20::run(tier),
        _ => {
            eprintln!("unknown property {prop}");
            std::process::exit(2)
        }
    }
}
pub fn replay(prop: &str, _tier: Tier, case: &serde_json::Value) -> Vec<Violation> {
    match prop {
        #[cfg(all(not(feature = "slim"), any(not(feature = "single"), feature = "p01")))]
        "C01" => c01::replay(case),
        #[cfg(all(not(feature = "slim"), any(not(feature = "single"), feature = "p02")))]
        "C02" => c02::replay(case),
        #[cfg(all(not(feature = "slim"), any(not(feature = "single"), feature = "p03")))]
        "C03" => c03::replay(case),
        #[cfg(all(not(feature = "slim"), any(not(feature = "single"), feature = "p04")))]
        "C04" => c04::replay(case),
        #[cfg(all(not(feature = "slim"), any(not(feature = "single"), feature = "p05")))]
        "C05" => c05::replay(case),
        #[cfg(all(not(feature = "slim"), any(not(feature = "single"), feature = "p06")))]
        "C06" => c05::replay_c06(case),
        #[cfg(all(not(feature = "slim"), any(not(feature = "single"), feature = "p07")))]
        "C07" => c07::replay(case),
        #[cfg(all(not(feature = "slim"), any(not(feature = "single"), feature = "p09")))]
        "C09" => c09::replay(case),
        #[cfg(all(not(feature = "slim"), any(not(feature = "single"), feature = "p10")))]
        "C10" => c10::replay(case),
        #[cfg(all(not(feature = "slim"), any(not(feature = "single"), feature = "p11")))]
        "C11" => c11::replay(case),
        #[cfg(all(not(feature = "slim"), any(not(feature = "single"), feature = "p12")))]
        "C12" => c12::replay(case),
        #[cfg(all(not(feature = "slim"), any(not(feature = "single"), feature = "p13")))]
        "C13" => c13::replay(case),
        #[cfg(all(not(feature = "slim"), any(not(feature = "single"), feature = "p14")))]
        "C14" => c14::replay(case),
        #[cfg(all(not(feature = "slim"), any(not(feature = "single"), feature = "p15")))]
        "C15" => c15::replay(case),
        #[cfg(any(not(feature = "single"), feature = "p08"))]
        "C08" => c08::replay(case),
        #[cfg(any(not(feature = "single"), feature = "p16"))]
        "C16" => c16::replay(case),
        #[cfg(all(not(feature = "slim"), any(not(feature = "single"), feature = "p17")))]
        "C17" => c17::replay(case),
        #[cfg(all(not(feature = "slim"), any(not(feature = "single"), feature = "p18")))]
        "C18" => c18::replay(case),
        #[cfg(all(not(feature = "slim"), any(not(feature = "single"), feature = "p19")))]
        "C19" => c19::replay(case),
        #[cfg(all(not(feature = "slim"), any(not(feature = "single"), feature = "p20")))]
        "C20" => c20::replay(case),
        _ => {
            eprintln!("unknown property {prop}");
            std::process::exit(2)
        }
    }
}
pub fn worker(prop: &str, tier: Tier, args: &[String]) -> i32 {
    match prop {
        #[cfg(all(not(feature = "slim"), any(not(feature = "single"), feature = "p03")))]
        "C03" => crate::pool::child(&c03::C03, tier, args),
        #[cfg(all(not(feature = "slim"), any(not(feature = "single"), feature = "p04")))]
        "C04" => crate::pool::child(&c04::C04, tier, args),
        #[cfg(all(not(feature = "slim"), any(not(feature = "single"), feature = "p12")))]
        "C12" => crate::pool::child(&c12::C12, tier, args),
        #[cfg(any(not(feature = "single"), feature = "p08"))]
        "C08" => crate::pool::child(&c08::C08, tier, args),
        #[cfg(any(not(feature = "single"), feature = "p16"))]
        "C16" => crate::pool::child(&c16::C16, tier, args),
        #[cfg(all(not(feature = "slim"), any(not(feature = "single"), feature = "p18")))]
        "C18" => crate::pool::child(&c18::C18, tier, args),
        _ => {
            eprintln!("unknown pooled property {prop}");
            2
        }
    }
}
