use crate::fw::*;
pub mod c01;
pub mod c02;
pub mod c03;
pub mod c04;
pub mod c05;
pub mod c07;
pub mod c09;
pub mod c10;
pub mod c11;
pub mod c12;
pub mod c13;
pub mod c14;
pub mod c15;
pub mod c16;
pub mod c17;
pub mod c18;
pub mod c19;
pub mod c20;

pub fn run(prop: &str, tier: Tier) -> Report {
    match prop {
        "C01" => c01::run(tier),
        "C02" => c02::run(tier),
        "C03" => c03::run(tier),
        "C04" => c04::run(tier),
        "C05" => c05::run(tier),
        "C06" => c05::run_c06(tier),
        "C07" => c07::run(tier),
        "C09" => c09::run(tier),
        "C10" => c10::run(tier),
        "C11" => c11::run(tier),
        "C12" => c12::run(tier),
        "C13" => c13::run(tier),
        "C14" => c14::run(tier),
        "C15" => c15::run(tier),
        "C16" => c16::run(tier),
        "C17" => c17::run(tier),
        "C18" => c18::run(tier),
        "C19" => c19::run(tier),
        "C20" => c20::run(tier),
        _ => {
            eprintln!("unknown property {prop}");
            std::process::exit(2)
        }
    }
}
pub fn replay(prop: &str, _tier: Tier, case: &serde_json::Value) -> Vec<Violation> {
    match prop {
        "C01" => c01::replay(case),
        "C02" => c02::replay(case),
        "C03" => c03::replay(case),
        "C04" => c04::replay(case),
        "C05" => c05::replay(case),
        "C06" => c05::replay_c06(case),
        "C07" => c07::replay(case),
        "C09" => c09::replay(case),
        "C10" => c10::replay(case),
        "C11" => c11::replay(case),
        "C12" => c12::replay(case),
        "C13" => c13::replay(case),
        "C14" => c14::replay(case),
        "C15" => c15::replay(case),
        "C16" => c16::replay(case),
        "C17" => c17::replay(case),
        "C18" => c18::replay(case),
        "C19" => c19::replay(case),
        "C20" => c20::replay(case),
        _ => {
            eprintln!("unknown property {prop}");
            std::process::exit(2)
        }
    }
}
pub fn worker(prop: &str, tier: Tier, args: &[String]) -> i32 {
    match prop {
        "C03" => crate::pool::child(&c03::C03, tier, args),
        "C04" => crate::pool::child(&c04::C04, tier, args),
        "C12" => crate::pool::child(&c12::C12, tier, args),
        "C16" => crate::pool::child(&c16::C16, tier, args),
        "C18" => crate::pool::child(&c18::C18, tier, args),
        _ => {
            eprintln!("unknown pooled property {prop}");
            2
        }
    }
}
