use crate::fw::*;
#[cfg(not(feature = "slim"))]
pub mod c01;
#[cfg(not(feature = "slim"))]
pub mod c02;
#[cfg(not(feature = "slim"))]
pub mod c03;
#[cfg(not(feature = "slim"))]
pub mod c04;
#[cfg(not(feature = "slim"))]
pub mod c05;
#[cfg(not(feature = "slim"))]
pub mod c07;
pub mod c08;
#[cfg(not(feature = "slim"))]
pub mod c09;
#[cfg(not(feature = "slim"))]
pub mod c10;
#[cfg(not(feature = "slim"))]
pub mod c11;
#[cfg(not(feature = "slim"))]
pub mod c12;
#[cfg(not(feature = "slim"))]
pub mod c13;
#[cfg(not(feature = "slim"))]
pub mod c14;
#[cfg(not(feature = "slim"))]
pub mod c15;
pub mod c16;
#[cfg(not(feature = "slim"))]
pub mod c17;
#[cfg(not(feature = "slim"))]
pub mod c18;
#[cfg(not(feature = "slim"))]
pub mod c19;
#[cfg(not(feature = "slim"))]
pub mod c20;

pub fn run(prop: &str, tier: Tier) -> Report {
    match prop {
        #[cfg(not(feature = "slim"))]
        "C01" => c01::run(tier),
        #[cfg(not(feature = "slim"))]
        "C02" => c02::run(tier),
        #[cfg(not(feature = "slim"))]
        "C03" => c03::run(tier),
        #[cfg(not(feature = "slim"))]
        "C04" => c04::run(tier),
        #[cfg(not(feature = "slim"))]
        "C05" => c05::run(tier),
        #[cfg(not(feature = "slim"))]
        "C06" => c05::run_c06(tier),
        #[cfg(not(feature = "slim"))]
        "C07" => c07::run(tier),
        #[cfg(not(feature = "slim"))]
        "C09" => c09::run(tier),
        #[cfg(not(feature = "slim"))]
        "C10" => c10::run(tier),
        #[cfg(not(feature = "slim"))]
        "C11" => c11::run(tier),
        #[cfg(not(feature = "slim"))]
        "C12" => c12::run(tier),
        #[cfg(not(feature = "slim"))]
        "C13" => c13::run(tier),
        #[cfg(not(feature = "slim"))]
        "C14" => c14::run(tier),
        #[cfg(not(feature = "slim"))]
        "C15" => c15::run(tier),
        "C08" => c08::run(tier),
        "C16" => c16::run(tier),
        #[cfg(not(feature = "slim"))]
        "C17" => c17::run(tier),
        #[cfg(not(feature = "slim"))]
        "C18" => c18::run(tier),
        #[cfg(not(feature = "slim"))]
        "C19" => c19::run(tier),
        #[cfg(not(feature = "slim"))]
        "C20" => c20::run(tier),
        _ => {
            eprintln!("unknown property {prop}");
            std::process::exit(2)
        }
    }
}
pub fn replay(prop: &str, _tier: Tier, case: &serde_json::Value) -> Vec<Violation> {
    match prop {
        #[cfg(not(feature = "slim"))]
        "C01" => c01::replay(case),
        #[cfg(not(feature = "slim"))]
        "C02" => c02::replay(case),
        #[cfg(not(feature = "slim"))]
        "C03" => c03::replay(case),
        #[cfg(not(feature = "slim"))]
        "C04" => c04::replay(case),
        #[cfg(not(feature = "slim"))]
        "C05" => c05::replay(case),
        #[cfg(not(feature = "slim"))]
        "C06" => c05::replay_c06(case),
        #[cfg(not(feature = "slim"))]
        "C07" => c07::replay(case),
        #[cfg(not(feature = "slim"))]
        "C09" => c09::replay(case),
        #[cfg(not(feature = "slim"))]
        "C10" => c10::replay(case),
        #[cfg(not(feature = "slim"))]
        "C11" => c11::replay(case),
        #[cfg(not(feature = "slim"))]
        "C12" => c12::replay(case),
        #[cfg(not(feature = "slim"))]
        "C13" => c13::replay(case),
        #[cfg(not(feature = "slim"))]
        "C14" => c14::replay(case),
        #[cfg(not(feature = "slim"))]
        "C15" => c15::replay(case),
        "C08" => c08::replay(case),
        "C16" => c16::replay(case),
        #[cfg(not(feature = "slim"))]
        "C17" => c17::replay(case),
        #[cfg(not(feature = "slim"))]
        "C18" => c18::replay(case),
        #[cfg(not(feature = "slim"))]
        "C19" => c19::replay(case),
        #[cfg(not(feature = "slim"))]
        "C20" => c20::replay(case),
        _ => {
            eprintln!("unknown property {prop}");
            std::process::exit(2)
        }
    }
}
pub fn worker(prop: &str, tier: Tier, args: &[String]) -> i32 {
    match prop {
        #[cfg(not(feature = "slim"))]
        "C03" => crate::pool::child(&c03::C03, tier, args),
        #[cfg(not(feature = "slim"))]
        "C04" => crate::pool::child(&c04::C04, tier, args),
        #[cfg(not(feature = "slim"))]
        "C12" => crate::pool::child(&c12::C12, tier, args),
        "C08" => crate::pool::child(&c08::C08, tier, args),
        "C16" => crate::pool::child(&c16::C16, tier, args),
        #[cfg(not(feature = "slim"))]
        "C18" => crate::pool::child(&c18::C18, tier, args),
        _ => {
            eprintln!("unknown pooled property {prop}");
            2
        }
    }
}
