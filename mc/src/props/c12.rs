//! C12 — JSON-LD serialisation round-trips every representable dataset (E2, pooled).
use crate::fw::*;
use crate::model::iso::iso;
use crate::model::refnq;
use crate::model::terms::*;
use crate::pool::Pooled;
use json_ld::rdf::RdfDirection;
use serde_json::{Value, json};
use sophia_api::prelude::*;
use sophia_api::serializer::{QuadSerializer, Stringifier};
use sophia_api::source::IntoSource;
use sophia_jsonld::{JsonLdOptions, JsonLdParser, JsonLdSerializer};

pub struct C12;

#[derive(Clone, Debug)]
pub struct Case {
    pub quads: Vec<AQuad>,
    /// 0: 1.1, 1: 1.0
    pub mode: u8,
    pub use_rdf_type: bool,
    /// 0 none, 1 i18n, 2 compound
    pub direction: u8,
    pub spaces: u16,
}

fn rdf(l: &str) -> ATerm {
    ATerm::iri(&format!("{RDF}{l}"))
}
fn ex(l: &str) -> ATerm {
    ATerm::iri(&format!("http://ex.org/{l}"))
}
const I18N: &str = "https://www.w3.org/ns/i18n#";

fn full_universe() -> Vec<AQuad> {
    let subjects = [ATerm::b("a"), ATerm::b("b"), ATerm::b("l"), ex("s")];
    let preds = [rdf("first"), rdf("rest"), rdf("type"), ex("p"), rdf("value"), rdf("direction"), rdf("language")];
    let objects = [
        ATerm::b("a"),
        ATerm::b("b"),
        ATerm::b("l"),
        rdf("nil"),
        rdf("List"),
        ex("o"),
        ATerm::lit("v"),
        ATerm::lang("v", "en"),
        ATerm::typed("[1]", &format!("{RDF}JSON")),
        ATerm::typed("v", &format!("{I18N}en_ltr")),
        ATerm::typed("v", &format!("{I18N}en-GB_rtl")),
        ATerm::typed("v", &format!("{I18N}_ltr")),
        ATerm::lit("ltr"),
        ATerm::typed("1", &format!("{XSD}integer")),
        ATerm::typed("true", &format!("{XSD}boolean")),
    ];
    let graphs = [None, Some(ex("g")), Some(ATerm::b("a"))];
    let mut v = vec![];
    for g in &graphs {
        for s in &subjects {
            for p in &preds {
                for o in &objects {
                    v.push(([s.clone(), p.clone(), o.clone()], g.clone()));
                }
            }
        }
    }
    v
}
fn list_universe() -> Vec<AQuad> {
    let subjects = [ATerm::b("a"), ATerm::b("l"), ex("s")];
    let preds = [rdf("first"), rdf("rest"), ex("p"), rdf("type")];
    let objects = [ATerm::b("a"), ATerm::b("l"), rdf("nil"), ex("o"), ATerm::lit("v")];
    let graphs = [None, Some(ex("g"))];
    let mut v = vec![];
    for g in &graphs {
        for s in &subjects {
            for p in &preds {
                for o in &objects {
                    v.push(([s.clone(), p.clone(), o.clone()], g.clone()));
                }
            }
        }
    }
    // graphs named by the blank nodes that can also be list cells
    v.push(([ex("s"), ex("p"), ex("o")], Some(ATerm::b("l"))));
    v.push(([ex("s"), ex("p"), ex("o")], Some(ATerm::b("a"))));
    v
}
/// quads JSON-LD cannot express
fn inexpressible() -> Vec<AQuad> {
    vec![
        ([ATerm::lit("subject"), ex("p"), ex("o")], None),
        ([ex("s"), ATerm::b("pred"), ex("o")], None),
        ([ex("s"), ex("p"), ATerm::var("v")], None),
        ([ATerm::var("v"), ex("p"), ex("o")], Some(ex("g"))),
        ([ex("s"), ex("p"), ex("o")], Some(ATerm::lit("graph"))),
        ([ATerm::triple(ex("s"), ex("p"), ex("o")), ex("p"), ex("o")], None),
        ([ex("s"), ex("p"), ATerm::triple(ex("s"), ex("p"), ex("o"))], None),
    ]
}
fn expressible(q: &AQuad) -> bool {
    matches!(q.0[0], ATerm::Iri(_) | ATerm::Bnode(_)) && matches!(q.0[1], ATerm::Iri(_)) && matches!(q.0[2], ATerm::Iri(_) | ATerm::Bnode(_) | ATerm::Lit(..)) && matches!(q.1, None | Some(ATerm::Iri(_)) | Some(ATerm::Bnode(_)))
}

/// list structures of up to 3 cells with every combination of irregularities
fn list_structures() -> Vec<Vec<AQuad>> {
    let mut out = vec![];
    let cells = ["l", "m", "n"];
    for len in 1..=3usize {
        for typed in [false, true] {
            for extra_prop in [false, true] {
                for second_first in [false, true] {
                    for tail in 0..3u8 {
                        // 0: nil, 1: cyclic back to head, 2: shared tail referenced from elsewhere too
                        // head referenced 0 / 1 / 2 times, or once as the object of rdf:type
                        for refs in 0..4u8 {
                            for head_graph in 0..2u8 {
                                let g = |named: bool| if named { Some(ex("g")) } else { None };
                                let cg = g(head_graph == 1);
                                let mut q: Vec<AQuad> = vec![];
                                for i in 0..len {
                                    let c = ATerm::b(cells[i]);
                                    q.push(([c.clone(), rdf("first"), ATerm::lit(&format!("item{i}"))], cg.clone()));
                                    let rest = if i + 1 < len {
                                        ATerm::b(cells[i + 1])
                                    } else {
                                        match tail {
                                            0 | 2 => rdf("nil"),
                                            _ => ATerm::b(cells[0]),
                                        }
                                    };
                                    q.push(([c.clone(), rdf("rest"), rest], cg.clone()));
                                }
                                let last = ATerm::b(cells[len - 1]);
                                if typed {
                                    q.push(([last.clone(), rdf("type"), rdf("List")], cg.clone()));
                                }
                                if extra_prop {
                                    q.push(([last.clone(), ex("p"), ex("o")], cg.clone()));
                                }
                                if second_first {
                                    q.push(([ATerm::b(cells[0]), rdf("first"), ATerm::lit("other")], cg.clone()));
                                }
                                if tail == 2 {
                                    q.push(([ex("other"), ex("p"), last.clone()], cg.clone()));
                                }
                                // head referenced 0 / 1 / 2 times; the second reference from the other graph
                                let head = ATerm::b(cells[0]);
                                if refs == 3 {
                                    q.push(([ex("s"), rdf("type"), head.clone()], cg.clone()));
                                } else if refs >= 1 {
                                    q.push(([ex("s"), ex("p"), head.clone()], cg.clone()));
                                }
                                if refs == 2 {
                                    q.push(([ex("s2"), ex("q"), head.clone()], g(head_graph == 0)));
                                }
                                // ... and the same structure with a graph named by the head / by the last cell
                                let mut q2 = q.clone();
                                q2.push(([ex("x"), ex("y"), ex("z")], Some(head.clone())));
                                let mut q3 = q.clone();
                                q3.push(([ex("x"), ex("y"), ex("z")], Some(last.clone())));
                                out.push(q);
                                out.push(q2);
                                out.push(q3);
                            }
                        }
                    }
                }
            }
        }
    }
    out
}

type Opts = JsonLdOptions<sophia_jsonld::loader_factory::DefaultLoaderFactory<sophia_jsonld::loader::NoLoader>>;
fn options(c: &Case) -> Opts {
    let mut o = JsonLdOptions::new().with_use_rdf_type(c.use_rdf_type).with_spaces(c.spaces);
    o = o.with_processing_mode(if c.mode == 0 { json_ld::ProcessingMode::JsonLd1_1 } else { json_ld::ProcessingMode::JsonLd1_0 });
    o = match c.direction {
        1 => o.with_rdf_direction(RdfDirection::I18nDatatype),
        2 => o.with_rdf_direction(RdfDirection::CompoundLiteral),
        _ => o.with_no_rdf_direction(),
    };
    o
}

impl Pooled for C12 {
    type Case = Case;
    fn prop(&self) -> &'static str {
        "C12"
    }
    fn enumerate(&self, tier: Tier, f: &mut dyn FnMut(&Case)) {
        let mut n = 0usize;
        let mut emit = |quads: Vec<AQuad>, all_options: bool, f: &mut dyn FnMut(&Case)| {
            n += 1;
            if all_options {
                for mode in 0..2 {
                    for use_rdf_type in [false, true] {
                        for direction in 0..3 {
                            f(&Case { quads: quads.clone(), mode, use_rdf_type, direction, spaces: if (mode + direction) % 2 == 0 { 0 } else { 2 } });
                        }
                    }
                }
            } else {
                // default options + one rotating combination
                f(&Case { quads: quads.clone(), mode: 0, use_rdf_type: false, direction: 0, spaces: 0 });
                let k = n % 11;
                f(&Case { quads, mode: (k % 2) as u8, use_rdf_type: (k / 2) % 2 == 1, direction: ((k / 4) % 3) as u8, spaces: if k % 3 == 0 { 2 } else { 0 } });
            }
        };
        let full = full_universe();
        for q in &full {
            emit(vec![q.clone()], true, f);
        }
        let lists = list_universe();
        subsets_upto(lists.len(), tier.pick(2, 3), &mut |idx| {
            if idx.len() >= 2 {
                emit(idx.iter().map(|i| lists[*i].clone()).collect(), false, f);
            }
        });
        for (i, l) in list_structures().into_iter().enumerate() {
            emit(l, tier == Tier::Thorough || i % 4 == 0, f);
        }
        // pairs over the full universe (thorough: every 3rd pair; quick: a thin complete slice)
        let step = tier.pick(97, 7);
        let mut k = 0usize;
        for i in 0..full.len() {
            for j in (i + 1)..full.len() {
                k += 1;
                if k % step == 0 {
                    emit(vec![full[i].clone(), full[j].clone()], false, f);
                }
            }
        }
        // inexpressible quads mixed with expressible ones: only they may be omitted
        for bad in inexpressible() {
            for good in full.iter().step_by(61) {
                emit(vec![bad.clone(), good.clone()], false, f);
            }
            emit(vec![bad.clone()], true, f);
        }
        // compound literal shapes
        let cl = |extra: bool| {
            let mut q = vec![([ex("s"), ex("p"), ATerm::b("c")], None), ([ATerm::b("c"), rdf("value"), ATerm::lit("v")], None), ([ATerm::b("c"), rdf("direction"), ATerm::lit("ltr")], None), ([ATerm::b("c"), rdf("language"), ATerm::lit("en")], None)];
            if extra {
                q.push(([ATerm::b("c"), ex("p"), ex("o")], None));
            }
            q
        };
        emit(cl(false), true, f);
        emit(cl(true), true, f);
        emit(cl(false)[..3].to_vec(), true, f);
        emit(cl(false)[1..].to_vec(), true, f);
    }
    fn case_json(&self, c: &Case) -> Value {
        let dir = ["none", "i18n-datatype", "compound-literal"][c.direction as usize];
        let mode = if c.mode == 0 { "1.1" } else { "1.0" };
        json!({"quads": quads_nq(&c.quads), "mode": mode, "use_rdf_type": c.use_rdf_type, "rdf_direction": dir, "spaces": c.spaces})
    }
    fn case_from_json(&self, v: &Value) -> Option<Case> {
        let mut quads = vec![];
        for q in v["quads"].as_array()? {
            quads.push(refnq::parse_quad(q.as_str()?).ok()?);
        }
        Some(Case {
            quads,
            mode: if v["mode"].as_str()? == "1.1" { 0 } else { 1 },
            use_rdf_type: v["use_rdf_type"].as_bool()?,
            direction: ["none", "i18n-datatype", "compound-literal"].iter().position(|d| Some(*d) == v["rdf_direction"].as_str())? as u8,
            spaces: v["spaces"].as_u64()? as u16,
        })
    }
    fn run(&self, c: &Case, st: &mut Stats) -> Vec<Violation> {
        let case = self.case_json(c);
        let feat = feature(&c.quads);
        st.inc("validated");
        let squads: Vec<SQuad> = c.quads.iter().map(to_squad).collect();
        let text: Result<Result<String, String>, String> = guarded(|| {
            let mut ser = JsonLdSerializer::new_stringifier_with_options(options(c));
            ser.serialize_quads(squads.clone().into_iter().into_source()).map_err(|e| e.to_string())?;
            Ok(ser.to_string())
        });
        let text = match text {
            Err(p) => return vec![Violation::new(format!("serializer-panic:{feat}"), format!("{:?}: {p}", quads_nq(&c.quads)), case)],
            Ok(Err(e)) => return vec![Violation::new(format!("serializer-error:{feat}"), format!("{:?}: {e}", quads_nq(&c.quads)), case)],
            Ok(Ok(t)) => t,
        };
        let back: Result<Result<Vec<AQuad>, String>, String> = guarded(|| {
            let parser = JsonLdParser::new_with_options(options(c));
            let mut v = vec![];
            sophia_api::parser::QuadParser::parse_str(&parser, &text).for_each_quad(|q| v.push(from_quad(&q))).map_err(|e| e.to_string())?;
            Ok(v)
        });
        let expected: Vec<AQuad> = c.quads.iter().filter(|q| expressible(q)).cloned().collect();
        if text.contains("@list") || text.contains("@graph") || text.contains("@type") || text.contains("@direction") {
            st.inc("nontrivial");
        }
        st.outcome(&feat);
        match back {
            Err(p) => vec![Violation::new(format!("parser-panic:{feat}"), format!("{text}: {p}"), case)],
            Ok(Err(e)) => vec![Violation::new(format!("output-does-not-parse:{feat}"), format!("{:?} serialised as {text}: {e}", quads_nq(&c.quads)), case)],
            Ok(Ok(v)) => {
                let mut uniq = v.clone();
                uniq.sort();
                uniq.dedup();
                if uniq.len() != v.len() || !iso(&v, &expected) {
                    let kind = if uniq.len() != v.len() {
                        "quad-duplicated"
                    } else if v.len() < expected.len() {
                        "quads-lost"
                    } else if v.len() > expected.len() {
                        "quads-invented"
                    } else {
                        "quads-changed"
                    };
                    // two precisely identified causes get their own signature (see known_findings.json)
                    let is_cell = |t: &ATerm| c.quads.iter().any(|q| &q.0[0] == t && q.0[1] == rdf("first")) && c.quads.iter().any(|q| &q.0[0] == t && q.0[1] == rdf("rest"));
                    let without_list_types: Vec<AQuad> = expected.iter().filter(|q| !(q.0[1] == rdf("type") && q.0[2] == rdf("List") && is_cell(&q.0[0]))).cloned().collect();
                    let compound_vocab = [rdf("value"), rdf("direction"), rdf("language")];
                    let without_compound: Vec<AQuad> = expected.iter().filter(|q| !(matches!(q.0[0], ATerm::Bnode(_)) && compound_vocab.contains(&q.0[1]))).cloned().collect();
                    // i18n datatypes with an empty language part ("...i18n#_ltr"): written as {"@value","@direction"}
                    // (correct), read back by the third-party processor as "...i18n#ltr"
                    let i18n_misread: Vec<AQuad> = expected
                        .iter()
                        .map(|q| {
                            let mut q = q.clone();
                            if let ATerm::Lit(dt, None, lex) = &q.0[2] {
                                if let Some(dir) = dt.strip_prefix(&format!("{I18N}_")) {
                                    q.0[2] = ATerm::typed(lex, &format!("{I18N}{dir}"));
                                }
                            }
                            q
                        })
                        .collect();
                    let sig = if c.direction == 1 && i18n_misread != expected && text.contains("@direction") && iso(&v, &i18n_misread) {
                        "i18n-datatype-without-language-misread-by-parser".to_string()
                    } else if without_list_types.len() < expected.len() && iso(&v, &without_list_types) {
                        "typed-list-cell-loses-rdf-type".to_string()
                    } else if c.direction == 2 && text.contains("@direction") && without_compound.len() < expected.len() && iso(&v, &without_compound) {
                        "compound-literal-not-restored-by-parser".to_string()
                    } else {
                        format!("{kind}:{feat}")
                    };
                    vec![Violation::new(sig, format!("{:?} serialised as {text} parses as {:?}", quads_nq(&c.quads), quads_nq(&v)), case)]
                } else {
                    st.inc("round_trips_ok");
                    if c.quads.len() >= 3 && text.contains("@list") {
                        st.sample(json!({"case": self.case_json(c), "json": text}));
                    }
                    vec![]
                }
            }
        }
    }
    fn timeout_s(&self) -> u64 {
        10
    }
    fn rlimit_as_bytes(&self) -> u64 {
        4 << 30
    }
    fn crash_sig(&self, c: &Case, kind: &str) -> String {
        format!("crash-{kind}:{}", feature(&c.quads))
    }
}

/// structural features naming the kind of input that fails
fn feature(quads: &[AQuad]) -> String {
    let mut f: Vec<&str> = vec![];
    let first = rdf("first");
    let rest = rdf("rest");
    let has = |p: &dyn Fn(&AQuad) -> bool| quads.iter().any(|q| p(q));
    if has(&|q| !expressible(q)) {
        f.push("inexpressible-quad");
    }
    let cells: Vec<&ATerm> = quads.iter().filter(|q| q.0[1] == first || q.0[1] == rest).map(|q| &q.0[0]).collect();
    if !cells.is_empty() {
        f.push("list-cell");
        // head nobody references
        if cells.iter().any(|c| !quads.iter().any(|q| &q.0[2] == *c)) {
            f.push("unreferenced-head");
        }
        // cell label used in several graphs
        if cells.iter().any(|c| quads.iter().filter(|q| &q.0[0] == *c || &q.0[2] == *c).map(|q| &q.1).collect::<std::collections::BTreeSet<_>>().len() > 1) {
            f.push("cell-label-in-several-graphs");
        }
        if quads.iter().any(|q| (q.0[1] == first || q.0[1] == rest) && q.0[0] == q.0[2]) {
            f.push("self-referencing-cell");
        }
        if cells.iter().any(|c| quads.iter().filter(|q| &q.0[0] == *c && q.0[1] == first).count() > 1 || quads.iter().filter(|q| &q.0[0] == *c && q.0[1] == rest).count() > 1) {
            f.push("branching-cell");
        }
        if cells.iter().any(|c| quads.iter().filter(|q| &q.0[2] == *c).count() > 1) {
            f.push("shared-cell");
        }
    }
    if has(&|q| matches!(&q.1, Some(ATerm::Bnode(_)))) {
        f.push("blank-graph-name");
    }
    if has(&|q| q.0[1] == rdf("type")) {
        f.push("rdf-type");
    }
    if has(&|q| q.0[1] == rdf("value") || q.0[1] == rdf("direction") || q.0[1] == rdf("language")) {
        f.push("compound-literal-vocabulary");
    }
    if f.is_empty() {
        f.push("plain");
    }
    f.join("+")
}

pub fn run(tier: Tier) -> Report {
    let mut rep = Report::new("C12", tier);
    let o = crate::pool::parent(&C12, tier, None);
    rep.stats.merge(&o.stats);
    rep.stats.add("states", rep.stats.get("cases_run"));
    rep.stats.add("transitions", rep.stats.get("validated"));
    rep.violations = o.violations;
    rep.caps = o.caps;
    rep.rule = format!(
        "every single quad of a {}-quad universe (subjects _:a _:b _:l ex:s; predicates rdf:first/rest/type/value/direction/language, ex:p; objects incl. rdf:nil, rdf:List, plain/tagged/typed literals, rdf:JSON and i18n-datatype literals; graphs default / IRI / blank) under all 12 option combinations (processing mode 1.0/1.1 x use_rdf_type x rdf_direction none/i18n/compound, indentation 0/2); every dataset of 2..{} quads over a {}-quad list universe in two graphs; {} list structures of <= 3 cells with every combination of {{typed rdf:List, extra property, second rdf:first, cyclic/shared tail, head referenced 0/1/2 times, other graph}}; a slice of all pairs of the large universe; compound-literal shapes; inexpressible quads (literal subject, blank predicate, variable, literal graph name, quoted triples) mixed with expressible ones; oracle: parse(serialize(d)) with the same options is isomorphic (brute force) to d minus the inexpressible quads, without duplicates, no panic; non-trivial = output uses @list, @graph, @type or @direction",
        full_universe().len(),
        tier.pick(2, 3),
        list_universe().len(),
        list_structures().len()
    );
    rep.bounds = json!({"list_universe_quads": tier.pick(2, 3), "list_cells": 3});
    rep.assumptions = vec!["use_native_types (lossy by specification) is not exercised".into(), "rdf_direction is set identically on the serializer and the parser".into()];
    rep
}

pub fn replay(case: &Value) -> Vec<Violation> {
    crate::pool::parent(&C12, Tier::Quick, Some(case)).violations
}
