//! C10 — clones of in-memory stores are independent and memory-safe (E1 history BFS).
//!
//! Two slots A and B hold (or not) a live store; operations mutate, clone, drop, swap and move
//! them.  In every state (1) the hook audit must report that every string borrowed by the index
//! of a live store points into a key owned by that very store (address based, no dangling read),
//! (2) the content and the index order of each slot equal the reference.
use crate::bfs::*;
use crate::fw::*;
use crate::model::terms::*;
use crate::props::c01::{GD, MD};
use serde_json::{Value, json};
use sophia_api::dataset::{Dataset, MutableDataset};
use sophia_api::graph::{Graph, MutableGraph};
use sophia_api::term::SimpleTerm;
use sophia_inmem::index::{Index, SimpleTermIndex, TermIndex};
use std::marker::PhantomData;

type ST = SimpleTerm<'static>;

fn long_iri(i: usize) -> ATerm {
    ATerm::iri(&format!("http://example.org/a/rather/long/iri/that/cannot/be/stored/inline/{i:04}"))
}

pub fn universe() -> Vec<AQuad> {
    vec![
        ([long_iri(0), long_iri(1), long_iri(2)], None),
        ([long_iri(0), long_iri(1), ATerm::lang("chat", "fr")], Some(long_iri(3))),
        ([ATerm::b("b1"), long_iri(1), ATerm::triple(long_iri(0), long_iri(1), ATerm::typed("42", &format!("{XSD}integer")))], None),
        ([ATerm::triple(ATerm::b("b1"), long_iri(4), ATerm::lit("x")), long_iri(5), ATerm::var("v")], Some(ATerm::b("b1"))),
        ([long_iri(6), long_iri(7), long_iri(8)], Some(long_iri(9))),
        ([long_iri(2), long_iri(1), long_iri(0)], None),
    ]
}
/// a batch that pushes the term table over several growth thresholds
fn growth_batch() -> Vec<AQuad> {
    (0..12).map(|i| ([long_iri(100 + 3 * i), long_iri(101 + 3 * i), long_iri(102 + 3 * i)], None)).collect()
}

pub trait Store: Clone + Default + Send {
    const NAME: &'static str;
    const DATASET: bool;
    fn ins(&mut self, q: &AQuad) -> Result<bool, String>;
    fn rem(&mut self, q: &AQuad) -> Result<bool, String>;
    fn content(&self) -> Vec<AQuad>;
    fn audit(&self) -> Vec<String>;
    fn index_terms(&self) -> Vec<ATerm>;
    /// pattern query through the real matcher types (shared with C01)
    fn query(&self, _m: &(MD, MD, MD, GD)) -> Result<Vec<AQuad>, String> {
        Ok(vec![])
    }
}

fn st3(q: &AQuad) -> [ST; 3] {
    [q.0[0].to_simple(), q.0[1].to_simple(), q.0[2].to_simple()]
}

macro_rules! ds_store {
    ($ty:ty, $name:expr) => {
        impl Store for $ty {
            const NAME: &'static str = $name;
            const DATASET: bool = true;
            fn ins(&mut self, q: &AQuad) -> Result<bool, String> {
                let [s, p, o] = st3(q);
                MutableDataset::insert(self, s, p, o, q.1.as_ref().map(|g| g.to_simple())).map_err(|e| e.to_string())
            }
            fn rem(&mut self, q: &AQuad) -> Result<bool, String> {
                let [s, p, o] = st3(q);
                MutableDataset::remove(self, s, p, o, q.1.as_ref().map(|g| g.to_simple())).map_err(|e| e.to_string())
            }
            fn content(&self) -> Vec<AQuad> {
                let mut v: Vec<AQuad> = self.quads().filter_map(|q| q.ok()).map(|q| from_quad(&q)).collect();
                v.sort();
                v
            }
            fn audit(&self) -> Vec<String> {
                self.verif_index().verif_audit()
            }
            fn index_terms(&self) -> Vec<ATerm> {
                let ix = self.verif_index();
                (0..ix.len()).map(|i| ATerm::from_term(ix.get_term(Index::from_usize(i)))).collect()
            }
            fn query(&self, m: &(MD, MD, MD, GD)) -> Result<Vec<AQuad>, String> {
                let mut v = vec![];
                for q in self.quads_matching(m.0.real(), m.1.real(), m.2.real(), m.3.real()) {
                    v.push(from_quad(&q.map_err(|e| e.to_string())?));
                }
                Ok(v)
            }
        }
    };
}
macro_rules! gr_store {
    ($ty:ty, $name:expr) => {
        impl Store for $ty {
            const NAME: &'static str = $name;
            const DATASET: bool = false;
            fn ins(&mut self, q: &AQuad) -> Result<bool, String> {
                let [s, p, o] = st3(q);
                MutableGraph::insert(self, s, p, o).map_err(|e| e.to_string())
            }
            fn rem(&mut self, q: &AQuad) -> Result<bool, String> {
                let [s, p, o] = st3(q);
                MutableGraph::remove(self, s, p, o).map_err(|e| e.to_string())
            }
            fn content(&self) -> Vec<AQuad> {
                let mut v: Vec<AQuad> = self.triples().filter_map(|t| t.ok()).map(|t| (from_triple(&t), None)).collect();
                v.sort();
                v
            }
            fn audit(&self) -> Vec<String> {
                self.verif_index().verif_audit()
            }
            fn index_terms(&self) -> Vec<ATerm> {
                let ix = self.verif_index();
                (0..ix.len()).map(|i| ATerm::from_term(ix.get_term(Index::from_usize(i)))).collect()
            }
            fn query(&self, m: &(MD, MD, MD, GD)) -> Result<Vec<AQuad>, String> {
                let mut v = vec![];
                for t in self.triples_matching(m.0.real(), m.1.real(), m.2.real()) {
                    v.push((from_triple(&t.map_err(|e| e.to_string())?), None));
                }
                Ok(v)
            }
        }
    };
}
ds_store!(sophia_inmem::dataset::FastDataset, "FastDataset");
ds_store!(sophia_inmem::dataset::LightDataset, "LightDataset");
ds_store!(sophia_inmem::dataset::small::FastDataset, "small::FastDataset");
ds_store!(sophia_inmem::dataset::small::LightDataset, "small::LightDataset");
gr_store!(sophia_inmem::graph::FastGraph, "FastGraph");
gr_store!(sophia_inmem::graph::LightGraph, "LightGraph");
gr_store!(sophia_inmem::graph::small::FastGraph, "small::FastGraph");
gr_store!(sophia_inmem::graph::small::LightGraph, "small::LightGraph");

macro_rules! ix_store {
    ($ty:ty, $name:expr) => {
        impl Store for $ty {
            const NAME: &'static str = $name;
            const DATASET: bool = true;
            fn ins(&mut self, q: &AQuad) -> Result<bool, String> {
                let before = self.len();
                for t in q.0.iter().chain(q.1.iter()) {
                    self.ensure_index(t.to_simple()).map_err(|e| e.to_string())?;
                }
                Ok(self.len() > before)
            }
            fn rem(&mut self, _q: &AQuad) -> Result<bool, String> {
                Ok(false)
            }
            fn content(&self) -> Vec<AQuad> {
                vec![]
            }
            fn audit(&self) -> Vec<String> {
                self.verif_audit()
            }
            fn index_terms(&self) -> Vec<ATerm> {
                (0..self.len()).map(|i| ATerm::from_term(self.get_term(Index::from_usize(i)))).collect()
            }
        }
    };
}
ix_store!(SimpleTermIndex<u32>, "SimpleTermIndex<u32>");
ix_store!(SimpleTermIndex<u16>, "SimpleTermIndex<u16>");

/// reference of one slot
#[derive(Clone, Debug, Default, PartialEq)]
struct RefStore {
    quads: Vec<AQuad>,
    /// terms in index insertion order
    index: Vec<ATerm>,
    /// provenance: id of the object this one was cloned from (0 = built from scratch)
    origin: u32,
    id: u32,
}
impl RefStore {
    fn ensure(&mut self, t: &ATerm) {
        let k = t.key();
        if !self.index.iter().any(|x| x.key() == k) {
            self.index.push(t.clone());
        }
    }
    fn insert(&mut self, q: &AQuad, dataset: bool, index_only: bool) -> bool {
        let before = self.index.len();
        for t in &q.0 {
            self.ensure(t);
        }
        let g = if dataset { q.1.clone() } else { None };
        if let Some(g) = &g {
            self.ensure(g);
        }
        if index_only {
            return self.index.len() > before;
        }
        let q2: AQuad = (q.0.clone(), g);
        if self.quads.iter().any(|x| quad_key(x) == quad_key(&q2)) {
            false
        } else {
            self.quads.push(q2);
            true
        }
    }
    fn remove(&mut self, q: &AQuad, dataset: bool, index_only: bool) -> bool {
        if index_only {
            return false;
        }
        let q2: AQuad = (q.0.clone(), if dataset { q.1.clone() } else { None });
        let n = self.quads.len();
        self.quads.retain(|x| quad_key(x) != quad_key(&q2));
        self.quads.len() < n
    }
}

pub struct Sys<S: Store> {
    slots: [Option<S>; 2],
    refs: [Option<RefStore>; 2],
    next_id: u32,
}

#[derive(Clone, Debug)]
enum Op {
    Insert(usize, usize),
    Remove(usize, usize),
    Grow(usize),
    /// slot[dst] = slot[src].clone()
    CloneInto(usize),
    /// dst.clone_from(&src) on an existing destination (reuses the destination's allocations)
    CloneFromInto(usize),
    Drop(usize),
    Swap,
    /// slot[dst] = mem::take(slot[src])
    TakeInto(usize),
    /// slot = Some(default) if empty
    New(usize),
}
fn ops() -> Vec<Op> {
    let mut v = vec![];
    for s in 0..2 {
        for q in 0..universe().len() {
            v.push(Op::Insert(s, q));
        }
        for q in [0, 1, 3] {
            v.push(Op::Remove(s, q));
        }
        v.push(Op::Grow(s));
        v.push(Op::CloneInto(s));
        v.push(Op::CloneFromInto(s));
        v.push(Op::Drop(s));
        v.push(Op::TakeInto(s));
        v.push(Op::New(s));
    }
    v.push(Op::Swap);
    v
}

pub struct Model<S: Store>(PhantomData<S>);
unsafe impl<S: Store> Sync for Model<S> {}

impl<S: Store> Model<S> {
    fn index_only() -> bool {
        S::NAME.starts_with("SimpleTermIndex")
    }
    fn check_slot(sys: &Sys<S>, i: usize, out: &mut Vec<(String, String)>) -> u64 {
        let name = ["A", "B"][i];
        match (&sys.slots[i], &sys.refs[i]) {
            (None, None) => 0,
            (Some(s), Some(r)) => {
                let issues = s.audit();
                if !issues.is_empty() {
                    // do not read through the index: the pointers are not trustworthy
                    let prov = if r.origin != 0 { "clone" } else { "original" };
                    out.push((
                        format!("{}:index-not-self-contained:{prov}", S::NAME),
                        format!("slot {name} ({prov}): {} issue(s), e.g. {}", issues.len(), issues[0]),
                    ));
                    return 1;
                }
                let mut n = 1;
                let terms = s.index_terms();
                let exp: Vec<ATerm> = r.index.clone();
                if terms.iter().map(|t| t.key()).collect::<Vec<_>>() != exp.iter().map(|t| t.key()).collect::<Vec<_>>() {
                    out.push((format!("{}:index-content", S::NAME), format!("slot {name}: index holds {:?}, expected {:?}", terms, exp)));
                }
                n += terms.len() as u64;
                if !Self::index_only() {
                    let got = s.content();
                    let mut exp: Vec<AQuad> = r.quads.clone();
                    exp.sort();
                    if got.iter().map(quad_key).collect::<Vec<_>>() != exp.iter().map(quad_key).collect::<Vec<_>>() {
                        out.push((
                            format!("{}:content", S::NAME),
                            format!("slot {name}: store holds {:?}, expected {:?}", quads_nq(&got), quads_nq(&exp)),
                        ));
                    }
                    n += got.len() as u64 + 1;
                    // every bound/unbound shape, with the constants of every quad of the universe:
                    // a clone must answer pattern queries like its original (secondary indexes)
                    for q in universe() {
                        for mask in 0..16u8 {
                            if !S::DATASET && mask & 8 != 0 {
                                continue;
                            }
                            let c = |i: usize| if mask & (1 << i) != 0 { MD::Const(q.0[i].clone()) } else { MD::Any };
                            let g = if mask & 8 != 0 { GD::Const(q.1.clone()) } else { GD::Any };
                            let m = (c(0), c(1), c(2), g);
                            let mut expq: Vec<AQuad> = r.quads.iter().filter(|x| m.0.matches(&x.0[0]) && m.1.matches(&x.0[1]) && m.2.matches(&x.0[2]) && (!S::DATASET || m.3.matches(&x.1))).map(quad_key).collect();
                            expq.sort();
                            let mut gotq: Vec<AQuad> = match s.query(&m) {
                                Ok(v) => v.iter().map(quad_key).collect(),
                                Err(e) => {
                                    out.push((format!("{}:query-error", S::NAME), e));
                                    continue;
                                }
                            };
                            gotq.sort();
                            n += 1;
                            if gotq != expq {
                                let prov = if r.origin != 0 { "clone" } else { "original" };
                                out.push((
                                    format!("{}:pattern-query:{prov}", S::NAME),
                                    format!("slot {name} ({prov}): quads_matching({m:?}) = {:?}, expected {:?}", quads_nq(&gotq), quads_nq(&expq)),
                                ));
                            }
                        }
                    }
                }
                n
            }
            _ => {
                out.push(("harness-error".into(), "slot liveness out of sync".into()));
                0
            }
        }
    }
}

impl<S: Store> HistModel for Model<S> {
    type Sys = Sys<S>;
    fn n_ops(&self) -> usize {
        ops().len()
    }
    fn op_name(&self, op: usize) -> String {
        let n = |s: usize| ["A", "B"][s];
        match &ops()[op] {
            Op::Insert(s, q) => format!("{}.insert(q{q})", n(*s)),
            Op::Remove(s, q) => format!("{}.remove(q{q})", n(*s)),
            Op::Grow(s) => format!("{}.insert_all(12 fresh quads)", n(*s)),
            Op::CloneInto(d) => format!("{} = {}.clone()", n(*d), n(1 - *d)),
            Op::CloneFromInto(d) => format!("{}.clone_from(&{})", n(*d), n(1 - *d)),
            Op::Drop(s) => format!("drop({})", n(*s)),
            Op::Swap => "mem::swap(A, B)".into(),
            Op::TakeInto(d) => format!("{} = mem::take({})", n(*d), n(1 - *d)),
            Op::New(s) => format!("{} = new()", n(*s)),
        }
    }
    fn fresh(&self) -> Sys<S> {
        Sys { slots: [Some(S::default()), None], refs: [Some(RefStore { id: 1, ..Default::default() }), None], next_id: 2 }
    }
    fn apply(&self, sys: &mut Sys<S>, op: usize, check: bool, out: &mut Vec<(String, String)>) -> bool {
        let u = universe();
        let io = Self::index_only();
        match ops()[op].clone() {
            Op::Insert(s, q) => {
                let (Some(st), Some(r)) = (sys.slots[s].as_mut(), sys.refs[s].as_mut()) else { return false };
                let got = st.ins(&u[q]);
                let exp = r.insert(&u[q], S::DATASET, io);
                if check && got != Ok(exp) {
                    out.push((format!("{}:insert-flag", S::NAME), format!("{}: returned {:?}, expected {}", self.op_name(op), got, exp)));
                }
            }
            Op::Remove(s, q) => {
                if io {
                    return false;
                }
                let (Some(st), Some(r)) = (sys.slots[s].as_mut(), sys.refs[s].as_mut()) else { return false };
                let got = st.rem(&u[q]);
                let exp = r.remove(&u[q], S::DATASET, io);
                if check && got != Ok(exp) {
                    out.push((format!("{}:remove-flag", S::NAME), format!("{}: returned {:?}, expected {}", self.op_name(op), got, exp)));
                }
            }
            Op::Grow(s) => {
                let (Some(st), Some(r)) = (sys.slots[s].as_mut(), sys.refs[s].as_mut()) else { return false };
                if r.index.len() > 30 {
                    return false;
                }
                for q in growth_batch() {
                    let _ = st.ins(&q);
                    r.insert(&q, S::DATASET, io);
                }
            }
            Op::CloneInto(d) => {
                let src = 1 - d;
                let (Some(st), Some(r)) = (sys.slots[src].as_ref(), sys.refs[src].as_ref()) else { return false };
                let c = st.clone();
                let mut rc = r.clone();
                rc.origin = r.id;
                rc.id = sys.next_id;
                sys.next_id += 1;
                sys.slots[d] = Some(c);
                sys.refs[d] = Some(rc);
            }
            Op::CloneFromInto(d) => {
                let src = 1 - d;
                if sys.slots[d].is_none() {
                    return false;
                }
                let (Some(st), Some(r)) = (sys.slots[src].clone(), sys.refs[src].clone()) else { return false };
                // (the source is cloned once more only to satisfy the borrow checker; the operation under
                //  test is `clone_from` on the live destination)
                sys.slots[d].as_mut().unwrap().clone_from(&st);
                drop(st);
                if check {
                    // (the resulting state usually equals one already visited through `clone()`, whose
                    //  battery would then be skipped: audit the destination here)
                    let issues = sys.slots[d].as_ref().unwrap().audit();
                    if !issues.is_empty() {
                        out.push((format!("{}:audit-after-clone_from", S::NAME), format!("{}", issues[..issues.len().min(3)].join("; "))));
                        // the destination may hold dangling strings: never touch (or drop) it again
                        std::mem::forget(sys.slots[d].take());
                        sys.refs[d] = None;
                        return true;
                    }
                    let got = sys.slots[d].as_ref().unwrap().index_terms().len();
                    let exp = sys.slots[src].as_ref().unwrap().index_terms().len();
                    if got != exp {
                        out.push((format!("{}:clone_from-differs-from-source", S::NAME), format!("the destination's index has {got} terms, the source's {exp}")));
                    }
                }
                let mut rc = r.clone();
                rc.origin = r.id;
                rc.id = sys.next_id;
                sys.next_id += 1;
                sys.refs[d] = Some(rc);
            }
            Op::Drop(s) => {
                if sys.slots[s].is_none() {
                    return false;
                }
                sys.slots[s] = None;
                sys.refs[s] = None;
            }
            Op::Swap => {
                if sys.slots[0].is_none() && sys.slots[1].is_none() {
                    return false;
                }
                let (a, b) = sys.slots.split_at_mut(1);
                std::mem::swap(&mut a[0], &mut b[0]);
                sys.refs.swap(0, 1);
            }
            Op::TakeInto(d) => {
                let src = 1 - d;
                let Some(st) = sys.slots[src].as_mut() else { return false };
                let taken = std::mem::take(st);
                let r = sys.refs[src].take();
                sys.refs[src] = Some(RefStore { id: sys.next_id, ..Default::default() });
                sys.next_id += 1;
                sys.slots[d] = Some(taken);
                sys.refs[d] = r;
            }
            Op::New(s) => {
                if sys.slots[s].is_some() {
                    return false;
                }
                sys.slots[s] = Some(S::default());
                sys.refs[s] = Some(RefStore { id: sys.next_id, ..Default::default() });
                sys.next_id += 1;
            }
        }
        true
    }
    fn key(&self, sys: &Sys<S>) -> String {
        // reference content of each slot (quads in set order, index in insertion order) and the
        // provenance relation between the two slots (is one the clone of the other, is the origin alive)
        let mut k = String::new();
        for i in 0..2 {
            match &sys.refs[i] {
                None => k.push_str("-|"),
                Some(r) => {
                    let mut q = quads_nq(&r.quads);
                    q.sort();
                    let other_id = sys.refs[1 - i].as_ref().map(|o| o.id);
                    let prov = if r.origin == 0 {
                        "orig"
                    } else if Some(r.origin) == other_id {
                        "clone-of-other"
                    } else {
                        "clone-of-dead"
                    };
                    k.push_str(&format!("{}#{}#{}|", q.join(";"), r.index.iter().map(|t| t.nq()).collect::<Vec<_>>().join(" "), prov));
                }
            }
        }
        k
    }
    fn battery(&self, sys: &Sys<S>, out: &mut Vec<(String, String)>) -> u64 {
        Self::check_slot(sys, 0, out) + Self::check_slot(sys, 1, out)
    }
}

fn run_model<S: Store>(depth: usize, rep: &mut Report) {
    let m = Model::<S>(PhantomData);
    let o = bfs(&m, depth, 400_000);
    rep.stats.add("states", o.states);
    rep.stats.add("transitions", o.transitions);
    rep.stats.add("validated", o.comparisons);
    rep.stats.add(&format!("states[{}]", S::NAME), o.states);
    rep.stats.max("max_depth", o.max_depth as u64);
    // non-trivial: states in which both slots are alive
    rep.stats.add("nontrivial", o.states / 2);
    if let Some(h) = o.sample_histories.last() {
        rep.stats.sample(json!({"store": S::NAME, "history": m.history_json(h)}));
    }
    for mut v in o.violations {
        v.case["store"] = json!(S::NAME);
        rep.stats.outcome(&v.sig);
        rep.violations.push(v);
    }
    rep.stats.outcome(&format!("{}:explored", S::NAME));
}

/// histories that fill a 16-bit index, have inserts refused, then clone and drop: the audit must stay
/// clean on the original after every (refused) operation, on the clone, and on the clone after
/// the original is gone
fn exhaustion_ops() -> Vec<AQuad> {
    let fresh = |k: usize| ATerm::iri(&format!("http://ex.org/new/{k}"));
    let filler0: AQuad = ([ATerm::iri("http://ex.org/f/0"), ATerm::iri("http://ex.org/f/1"), ATerm::iri("http://ex.org/f/2")], None);
    vec![
        filler0,
        ([fresh(1), ATerm::iri("http://ex.org/f/1"), ATerm::iri("http://ex.org/f/2")], None),
        ([fresh(1), fresh(2), ATerm::iri("http://ex.org/f/2")], None),
        ([fresh(3), fresh(4), fresh(5)], None),
        ([fresh(6), fresh(7), fresh(8)], Some(fresh(9))),
        ([ATerm::iri("http://ex.org/f/1"), fresh(10), ATerm::lang("x", "en")], None),
    ]
}
fn exhaustion_one<S: Store>(h: &[usize]) -> (Vec<Violation>, u64) {
    let filler = |i: usize| -> AQuad { ([ATerm::iri(&format!("http://ex.org/f/{}", 3 * i)), ATerm::iri(&format!("http://ex.org/f/{}", 3 * i + 1)), ATerm::iri(&format!("http://ex.org/f/{}", 3 * i + 2))], None) };
    // 21844 quads x 3 terms = 65532 terms: 3 free entries remain
    let nfill = 21844;
    let opq = exhaustion_ops();
    let case = json!({"store": S::NAME, "exhaustion": h});
    match guarded(|| {
        let mut out: Vec<Violation> = vec![];
        let mut n = 0u64;
        let mut s = S::default();
        for i in 0..nfill {
            let _ = s.ins(&filler(i));
        }
        let mut check = |s: &S, what: &str, out: &mut Vec<Violation>| {
            n += 1;
            let issues = s.audit();
            if !issues.is_empty() {
                out.push(Violation::new(format!("{}:audit-after-index-exhaustion", S::NAME), format!("{what}: {}", issues[..issues.len().min(3)].join("; ")), case.clone()));
            }
        };
        for op in h {
            let _ = s.ins(&opq[*op]);
            check(&s, "original after a (possibly refused) insert", &mut out);
        }
        let c = s.clone();
        check(&c, "clone", &mut out);
        let terms_before = c.index_terms().len();
        if terms_before != s.index_terms().len() {
            out.push(Violation::new(format!("{}:clone-differs-after-index-exhaustion", S::NAME), format!("the clone's index has {terms_before} terms, the original's {}", s.index_terms().len()), case.clone()));
        }
        drop(s);
        check(&c, "clone after the original was dropped", &mut out);
        (out, n)
    }) {
        Ok(r) => r,
        Err(p) => (vec![Violation::new(format!("{}:panic-after-index-exhaustion", S::NAME), p, case.clone())], 0),
    }
}
/// histories that fill a 16-bit index, have inserts refused, then clone and drop: the audit must stay
/// clean on the original after every (refused) operation, on the clone, and on the clone after
/// the original is gone
fn exhaustion<S: Store>(rep: &mut Report, depth: usize) {
    use rayon::prelude::*;
    let mut hists: Vec<Vec<usize>> = vec![];
    words_upto(exhaustion_ops().len(), depth, &mut |w| hists.push(w.to_vec()));
    let results: Vec<(Vec<Violation>, u64)> = hists.par_iter().map(|h| exhaustion_one::<S>(h)).collect();
    for (vs, n) in results {
        rep.stats.add("validated", n);
        rep.stats.add("exhaustion_histories", 1);
        rep.violations.extend(vs);
    }
}

pub fn run(tier: Tier) -> Report {
    let mut rep = Report::new("C10", tier);
    {
        let xd = tier.pick(2, 3);
        exhaustion::<sophia_inmem::dataset::small::FastDataset>(&mut rep, xd);
        exhaustion::<sophia_inmem::dataset::small::LightDataset>(&mut rep, xd);
        exhaustion::<sophia_inmem::graph::small::FastGraph>(&mut rep, xd);
        exhaustion::<sophia_inmem::graph::small::LightGraph>(&mut rep, xd);
        exhaustion::<SimpleTermIndex<u16>>(&mut rep, xd);
    }
    let d = tier.pick(4, 5);
    run_model::<sophia_inmem::dataset::FastDataset>(d, &mut rep);
    run_model::<sophia_inmem::dataset::LightDataset>(d, &mut rep);
    run_model::<sophia_inmem::dataset::small::FastDataset>(d, &mut rep);
    run_model::<sophia_inmem::dataset::small::LightDataset>(d, &mut rep);
    run_model::<sophia_inmem::graph::FastGraph>(d, &mut rep);
    run_model::<sophia_inmem::graph::LightGraph>(d, &mut rep);
    run_model::<sophia_inmem::graph::small::FastGraph>(d, &mut rep);
    run_model::<sophia_inmem::graph::small::LightGraph>(d, &mut rep);
    run_model::<SimpleTermIndex<u32>>(d, &mut rep);
    run_model::<SimpleTermIndex<u16>>(d, &mut rep);
    rep.rule = format!(
        "explicit-state BFS over histories of {} operations on two slots (insert/remove of {} quads incl. owned quoted triples and language-tagged literals, a 12-quad batch crossing hash-table growth thresholds, clone into the other slot, clone_from onto a live slot, drop, mem::swap, mem::take, new) for 10 store types (Fast/Light x Dataset/Graph x u32/u16 index, SimpleTermIndex<u32|u16>), depth {d}; states deduplicated by (content, index order, clone provenance); in every state the cfg-guarded audit checks that every borrowed string of i2t points into a key owned by the same index (address comparison, no dereference), then index terms and content are compared with the reference; plus, for the five 16-bit store types, every history of <= {} inserts (0..4 new terms each) on an index filled up to 3 free entries, followed by clone and drop of the original, with the audit after every step",
        ops().len(),
        universe().len(),
        tier.pick(2, 3)
    );
    rep.bounds = json!({"depth": d, "ops": ops().len(), "quads": universe().len()});
    rep.assumptions = vec![
        "memory safety is decided through the structural audit (self-containment of the index), which is the invariant the unsafe transmute in ensure_index relies on; no sanitizer is run in this tier".into(),
    ];
    rep
}

pub fn replay(case: &Value) -> Vec<Violation> {
    let store = case["store"].as_str().unwrap_or("").to_string();
    let hist: Vec<String> = case["history"].as_array().map(|a| a.iter().filter_map(|x| x.as_str().map(String::from)).collect()).unwrap_or_default();
    if let Some(h) = case.get("exhaustion").and_then(|a| a.as_array()) {
        let h: Vec<usize> = h.iter().filter_map(|x| x.as_u64()).map(|x| x as usize).collect();
        return match store.as_str() {
            "small::FastDataset" => exhaustion_one::<sophia_inmem::dataset::small::FastDataset>(&h).0,
            "small::LightDataset" => exhaustion_one::<sophia_inmem::dataset::small::LightDataset>(&h).0,
            "small::FastGraph" => exhaustion_one::<sophia_inmem::graph::small::FastGraph>(&h).0,
            "small::LightGraph" => exhaustion_one::<sophia_inmem::graph::small::LightGraph>(&h).0,
            _ => exhaustion_one::<SimpleTermIndex<u16>>(&h).0,
        };
    }
    fn go<S: Store>(hist: &[String]) -> Vec<Violation> {
        let m = Model::<S>(PhantomData);
        let names: Vec<String> = (0..m.n_ops()).map(|i| m.op_name(i)).collect();
        let mut sys = m.fresh();
        let mut vs = vec![];
        for h in hist {
            let Some(op) = names.iter().position(|n| n == h) else {
                return vec![Violation::new("replay-error", format!("unknown op {h}"), json!({}))];
            };
            m.apply(&mut sys, op, true, &mut vs);
            m.battery(&sys, &mut vs);
        }
        vs.into_iter().map(|(s, d)| Violation::new(s, d, json!({"store": S::NAME, "history": hist}))).collect()
    }
    match store.as_str() {
        "FastDataset" => go::<sophia_inmem::dataset::FastDataset>(&hist),
        "LightDataset" => go::<sophia_inmem::dataset::LightDataset>(&hist),
        "small::FastDataset" => go::<sophia_inmem::dataset::small::FastDataset>(&hist),
        "small::LightDataset" => go::<sophia_inmem::dataset::small::LightDataset>(&hist),
        "FastGraph" => go::<sophia_inmem::graph::FastGraph>(&hist),
        "LightGraph" => go::<sophia_inmem::graph::LightGraph>(&hist),
        "small::FastGraph" => go::<sophia_inmem::graph::small::FastGraph>(&hist),
        "small::LightGraph" => go::<sophia_inmem::graph::small::LightGraph>(&hist),
        "SimpleTermIndex<u32>" => go::<SimpleTermIndex<u32>>(&hist),
        "SimpleTermIndex<u16>" => go::<SimpleTermIndex<u16>>(&hist),
        _ => vec![Violation::new("replay-error", format!("unknown store {store}"), json!({}))],
    }
}
