//! C02 — term equality / hashing / ordering are lawful and implementation-independent (E4).
//!
//! A finite set of abstract terms is realised in every shipped `Term` implementation that can
//! hold it; all pairs (and, for the order, all triples) are compared with the structural model.
use crate::fw::*;
use crate::model::terms::*;
use rayon::prelude::*;
use serde_json::{Value, json};
use sophia_api::MownStr;
use sophia_api::ns::{Namespace, NsTerm};
use sophia_api::prelude::*;
use sophia_api::term::{BnodeId, CmpTerm, FromTerm, LanguageTag, SimpleTerm, TermKind, VarName};
use sophia_iri::{Iri, IriRef};
use sophia_term::{ArcStrStash, ArcTerm, GenericLiteral, RcStrStash, RcTerm};
use std::cmp::Ordering;
use std::collections::hash_map::DefaultHasher;
use std::hash::{Hash, Hasher};

fn leak(s: &str) -> &'static str {
    Box::leak(s.to_string().into_boxed_str())
}

// ---------------------------------------------------------------------------------------------
// the term set

pub fn term_set(tier: Tier) -> Vec<ATerm> {
    let iris = ["http://www.w3.org/1999/02/22-rdf-syntax-ns#type", "http://www.w3.org/1999/02/22-rdf-syntax-ns#", "http://example.org/a", "http://example.org/a/b", "http://exbmple.org/a", "http://example.org/b"];
    let bnodes = ["b", "b1"];
    let vars = ["b", "v"];
    let lexes = ["", "a", "é", "b"];
    let dts = [XSD_STRING.to_string(), format!("{XSD}integer"), "http://example.org/dt".to_string(), "http://example.org/a".to_string()];
    let tags = ["en", "EN", "en-US", "fr", "En-us"];
    let mut atoms: Vec<ATerm> = vec![];
    for i in iris {
        atoms.push(ATerm::iri(i));
    }
    for b in bnodes {
        atoms.push(ATerm::b(b));
    }
    for v in vars {
        atoms.push(ATerm::var(v));
    }
    for l in lexes {
        for d in &dts {
            atoms.push(ATerm::typed(l, d));
        }
        for t in tags {
            atoms.push(ATerm::lang(l, t));
        }
    }
    // natives (their own rendering, read through the Term accessors)
    for t in native_terms() {
        if !atoms.contains(&t) {
            atoms.push(t);
        }
    }
    let mut out = atoms.clone();
    // quoted triples, depth 1 and 2 over a reduced atom set
    let mut reduced: Vec<ATerm> = vec![ATerm::iri(iris[2]), ATerm::b("b"), ATerm::lang("a", "en"), ATerm::lang("a", "EN"), ATerm::lit("a"), ATerm::var("v")];
    if tier == Tier::Thorough {
        reduced.extend([ATerm::iri(iris[3]), ATerm::b("b1"), ATerm::typed("a", "http://example.org/dt"), ATerm::lang("", "fr")]);
    }
    let preds = [ATerm::iri(iris[0]), ATerm::iri(iris[2])];
    let mut d1 = vec![];
    for s in &reduced {
        for p in &preds {
            for o in &reduced {
                d1.push(ATerm::triple(s.clone(), p.clone(), o.clone()));
            }
        }
    }
    let d1_take = tier.pick(d1.len(), d1.len());
    let step = (d1.len() / d1_take).max(1);
    let d1s: Vec<ATerm> = d1.iter().step_by(step).cloned().collect();
    out.extend(d1s.iter().cloned());
    // depth 2: quoted triples inside subject / object
    let inner: Vec<ATerm> = d1.iter().step_by(tier.pick(4, 1)).cloned().collect();
    for t in &inner {
        out.push(ATerm::triple(t.clone(), preds[0].clone(), ATerm::b("b")));
        out.push(ATerm::triple(ATerm::iri(iris[2]), preds[1].clone(), t.clone()));
    }
    // the same atom sequence nested differently, and components of different kinds at the same position
    let (a, b2, c, d, e) = (ATerm::iri(iris[2]), ATerm::iri(iris[0]), ATerm::iri(iris[3]), ATerm::iri(iris[0]), ATerm::iri(iris[5]));
    out.push(ATerm::triple(ATerm::triple(a.clone(), b2.clone(), c.clone()), d.clone(), e.clone()));
    out.push(ATerm::triple(a.clone(), b2.clone(), ATerm::triple(c.clone(), d.clone(), e.clone())));
    out.push(ATerm::triple(a.clone(), b2.clone(), ATerm::var("v")));
    out.push(ATerm::triple(ATerm::var("v"), b2.clone(), c.clone()));
    // legal but non-canonical lexical forms next to the native integers 0, 1, 42, -7
    for lex in ["042", "+42", "42", "-0", "00", "+1", "-07"] {
        let t = ATerm::typed(lex, &format!("{XSD}integer"));
        if !out.contains(&t) {
            out.push(t);
        }
    }
    out
}

fn native_terms() -> Vec<ATerm> {
    let mut v = vec![];
    for i in [0i32, 1, -7, i32::MAX, i32::MIN] {
        v.push(ATerm::from_term(i));
    }
    for i in [0isize, 42, isize::MIN] {
        v.push(ATerm::from_term(i));
    }
    for i in [0usize, 42, usize::MAX] {
        v.push(ATerm::from_term(i));
    }
    for f in [0.0f64, 1.5, -2.5e10] {
        v.push(ATerm::from_term(f));
    }
    v.push(ATerm::from_term(true));
    v.push(ATerm::from_term(false));
    v.push(ATerm::from_term("a"));
    v
}

// ---------------------------------------------------------------------------------------------
// realisations

pub trait Real: Sync {
    type T: Term + 'static;
    const NAME: &'static str;
    fn make(a: &ATerm) -> Vec<Self::T>;
    fn std_hash(_t: &Self::T) -> Option<u64> {
        None
    }
}
fn h<T: Hash>(t: &T) -> Option<u64> {
    let mut s = DefaultHasher::new();
    t.hash(&mut s);
    Some(s.finish())
}
fn term_hash<T: Term>(t: &T) -> u64 {
    let mut s = DefaultHasher::new();
    Term::hash(t, &mut s);
    s.finish()
}

fn simple_borrowed(a: &ATerm) -> SimpleTerm<'static> {
    let m = |s: &str| MownStr::from_ref(leak(s));
    match a {
        ATerm::Iri(i) => SimpleTerm::Iri(IriRef::new_unchecked(m(i))),
        ATerm::Bnode(b) => SimpleTerm::BlankNode(BnodeId::new_unchecked(m(b))),
        ATerm::Var(v) => SimpleTerm::Variable(VarName::new_unchecked(m(v))),
        ATerm::Lit(_, Some(tag), lex) => SimpleTerm::LiteralLanguage(m(lex), LanguageTag::new_unchecked(m(tag))),
        ATerm::Lit(dt, None, lex) => SimpleTerm::LiteralDatatype(m(lex), IriRef::new_unchecked(m(dt))),
        ATerm::Triple(t) => SimpleTerm::Triple(Box::new([simple_borrowed(&t[0]), simple_borrowed(&t[1]), simple_borrowed(&t[2])])),
    }
}

pub struct RSimpleOwned;
impl Real for RSimpleOwned {
    type T = SimpleTerm<'static>;
    const NAME: &'static str = "SimpleTerm(owned)";
    fn make(a: &ATerm) -> Vec<Self::T> {
        vec![a.to_simple()]
    }
    fn std_hash(t: &Self::T) -> Option<u64> {
        h(t)
    }
}
pub struct RSimpleBorrowed;
impl Real for RSimpleBorrowed {
    type T = SimpleTerm<'static>;
    const NAME: &'static str = "SimpleTerm(borrowed)";
    fn make(a: &ATerm) -> Vec<Self::T> {
        vec![simple_borrowed(a)]
    }
    fn std_hash(t: &Self::T) -> Option<u64> {
        h(t)
    }
}
pub struct RRef;
impl Real for RRef {
    type T = &'static SimpleTerm<'static>;
    const NAME: &'static str = "&SimpleTerm";
    fn make(a: &ATerm) -> Vec<Self::T> {
        vec![Box::leak(Box::new(a.to_simple()))]
    }
}
pub struct RCmp;
impl Real for RCmp {
    type T = CmpTerm<SimpleTerm<'static>>;
    const NAME: &'static str = "CmpTerm<SimpleTerm>";
    fn make(a: &ATerm) -> Vec<Self::T> {
        vec![CmpTerm(a.to_simple())]
    }
    fn std_hash(t: &Self::T) -> Option<u64> {
        h(t)
    }
}
pub struct RArc;
impl Real for RArc {
    type T = ArcTerm;
    const NAME: &'static str = "ArcTerm";
    fn make(a: &ATerm) -> Vec<Self::T> {
        vec![ArcTerm::from_term(a.to_simple())]
    }
    fn std_hash(t: &Self::T) -> Option<u64> {
        h(t)
    }
}
pub struct RRc;
unsafe impl Sync for RRc {}
impl Real for RRc {
    type T = RcTerm;
    const NAME: &'static str = "RcTerm";
    fn make(a: &ATerm) -> Vec<Self::T> {
        vec![RcTerm::from_term(a.to_simple())]
    }
    fn std_hash(t: &Self::T) -> Option<u64> {
        h(t)
    }
}
pub struct RGenLit;
impl Real for RGenLit {
    type T = GenericLiteral<String>;
    const NAME: &'static str = "GenericLiteral<String>";
    fn make(a: &ATerm) -> Vec<Self::T> {
        match a {
            ATerm::Lit(_, Some(tag), lex) => vec![GenericLiteral::LanguageString(lex.clone(), LanguageTag::new_unchecked(tag.clone()))],
            ATerm::Lit(dt, None, lex) => vec![GenericLiteral::Typed(lex.clone(), IriRef::new_unchecked(dt.clone()))],
            _ => vec![],
        }
    }
    fn std_hash(t: &Self::T) -> Option<u64> {
        h(t)
    }
}
pub struct RBnode;
impl Real for RBnode {
    type T = BnodeId<&'static str>;
    const NAME: &'static str = "BnodeId<&str>";
    fn make(a: &ATerm) -> Vec<Self::T> {
        match a {
            ATerm::Bnode(b) => vec![BnodeId::new_unchecked(leak(b))],
            _ => vec![],
        }
    }
}
pub struct RVar;
impl Real for RVar {
    type T = VarName<String>;
    const NAME: &'static str = "VarName<String>";
    fn make(a: &ATerm) -> Vec<Self::T> {
        match a {
            ATerm::Var(b) => vec![VarName::new_unchecked(b.clone())],
            _ => vec![],
        }
    }
}
pub struct RIri;
impl Real for RIri {
    type T = Iri<&'static str>;
    const NAME: &'static str = "Iri<&str>";
    fn make(a: &ATerm) -> Vec<Self::T> {
        match a {
            ATerm::Iri(b) => vec![Iri::new_unchecked(leak(b))],
            _ => vec![],
        }
    }
}
pub struct RIriRef;
impl Real for RIriRef {
    type T = IriRef<String>;
    const NAME: &'static str = "IriRef<String>";
    fn make(a: &ATerm) -> Vec<Self::T> {
        match a {
            ATerm::Iri(b) => vec![IriRef::new_unchecked(b.clone())],
            _ => vec![],
        }
    }
}
pub struct RNs;
impl Real for RNs {
    type T = NsTerm<'static>;
    const NAME: &'static str = "NsTerm";
    fn make(a: &ATerm) -> Vec<Self::T> {
        match a {
            ATerm::Iri(i) => {
                // every split point whose prefix is a valid namespace
                let mut v = vec![];
                for (k, _) in i.char_indices().chain([(i.len(), ' ')]) {
                    let (ns, suffix) = i.split_at(k);
                    if ns.is_empty() {
                        continue;
                    }
                    if let Ok(ns) = Namespace::new(leak(ns)) {
                        let ns: &'static Namespace<&'static str> = Box::leak(Box::new(ns));
                        if let Ok(t) = ns.get(leak(suffix)) {
                            v.push(t);
                        }
                    }
                }
                v
            }
            _ => vec![],
        }
    }
}
macro_rules! native_real {
    ($name:ident, $ty:ty, $label:expr, $vals:expr) => {
        pub struct $name;
        impl Real for $name {
            type T = $ty;
            const NAME: &'static str = $label;
            fn make(a: &ATerm) -> Vec<Self::T> {
                let vals: Vec<$ty> = $vals;
                vals.into_iter().filter(|v| ATerm::from_term(*v) == *a).collect()
            }
        }
    };
}
native_real!(RI32, i32, "i32", vec![0i32, 1, -7, i32::MAX, i32::MIN]);
native_real!(RIsize, isize, "isize", vec![0isize, 42, isize::MIN]);
native_real!(RUsize, usize, "usize", vec![0usize, 42, usize::MAX]);
native_real!(RF64, f64, "f64", vec![0.0f64, 1.5, -2.5e10]);
native_real!(RBool, bool, "bool", vec![true, false]);
pub struct RStr;
impl Real for RStr {
    type T = &'static str;
    const NAME: &'static str = "&str";
    fn make(a: &ATerm) -> Vec<Self::T> {
        match a {
            ATerm::Lit(dt, None, lex) if dt == XSD_STRING => vec![leak(lex)],
            _ => vec![],
        }
    }
}
pub struct RResult;
impl Real for RResult {
    type T = sophia_sparql::ResultTerm;
    const NAME: &'static str = "sparql::ResultTerm";
    fn make(a: &ATerm) -> Vec<Self::T> {
        vec![sophia_sparql::ResultTerm::from(ArcTerm::from_term(a.to_simple()))]
    }
}

// ---------------------------------------------------------------------------------------------
// checks

fn rank_of(k: TermKind) -> u8 {
    match k {
        TermKind::BlankNode => 0,
        TermKind::Iri => 1,
        TermKind::Literal => 2,
        TermKind::Triple => 3,
        TermKind::Variable => 4,
    }
}

/// all pairs (x in X, y in Y)
fn cross<X: Real, Y: Real>(terms: &[ATerm], simple: &[SimpleTerm<'static>], st: &mut Stats, out: &mut Vec<Violation>) {
    let xs: Vec<(usize, X::T)> = terms.iter().enumerate().flat_map(|(i, a)| X::make(a).into_iter().map(move |t| (i, t))).collect();
    let ys: Vec<(usize, Y::T)> = terms.iter().enumerate().flat_map(|(i, a)| Y::make(a).into_iter().map(move |t| (i, t))).collect();
    let pair = format!("{} x {}", X::NAME, Y::NAME);
    let mut push = |sig: &str, detail: String, i: usize, j: usize| {
        if out.len() < 2000 {
            out.push(Violation::new(format!("{sig}:{}:{}", X::NAME, Y::NAME), detail, json!({"left_type": X::NAME, "right_type": Y::NAME, "left": terms[i].nq(), "right": terms[j].nq()})));
        }
    };
    // observed classes (vacuity guard): same term written alike / differently, ordered either way
    let mut seen_classes = [false; 4];
    for (i, x) in &xs {
        // the realisation denotes the abstract term it was made from
        let mx = ATerm::from_term(x.borrow_term());
        if mx.key() != terms[*i].key() {
            push("realisation-differs", format!("{} built from {} reads back as {}", X::NAME, terms[*i].nq(), mx.nq()), *i, *i);
            continue;
        }
        let hx = term_hash(x);
        for (j, y) in &ys {
            st.inc("validated");
            let model_eq = terms[*i].key() == terms[*j].key();
            let r = guarded(|| {
                let e1 = Term::eq(x, y.borrow_term());
                let e2 = Term::eq(y, x.borrow_term());
                let c1 = Term::cmp(x, y.borrow_term());
                let c2 = Term::cmp(y, x.borrow_term());
                let hy = term_hash(y);
                (e1, e2, c1, c2, hy)
            });
            let (e1, e2, c1, c2, hy) = match r {
                Ok(r) => r,
                Err(p) => {
                    push("panic", format!("{pair}: comparing {} with {} panicked: {p}", terms[*i].nq(), terms[*j].nq()), *i, *j);
                    continue;
                }
            };
            seen_classes[if model_eq { if i == j { 0 } else { 1 } } else if c1 == Ordering::Less { 2 } else { 3 }] = true;
            if e1 != model_eq || e2 != model_eq {
                push("eq", format!("{pair}: eq({}, {}) = {e1}, reverse = {e2}, same RDF term = {model_eq}", terms[*i].nq(), terms[*j].nq()), *i, *j);
            }
            if model_eq && hx != hy {
                push("hash", format!("{pair}: {} and {} are the same term but Term::hash differs", terms[*i].nq(), terms[*j].nq()), *i, *j);
            }
            if (c1 == Ordering::Equal) != model_eq || c1 != c2.reverse() {
                push("cmp-equal-or-antisymmetry", format!("{pair}: cmp({}, {}) = {c1:?}, reverse = {c2:?}, same term = {model_eq}", terms[*i].nq(), terms[*j].nq()), *i, *j);
            }
            let (ri, rj) = (terms[*i].rank(), terms[*j].rank());
            if ri != rj && c1 != ri.cmp(&rj) {
                push("cmp-kind-order", format!("{pair}: cmp({}, {}) = {c1:?} but kinds must sort bnode < iri < literal < triple < variable", terms[*i].nq(), terms[*j].nq()), *i, *j);
            }
            // implementation independence of the order: same verdict as the SimpleTerm realisations
            let cs = Term::cmp(&simple[*i], &simple[*j]);
            if c1 != cs {
                push("cmp-depends-on-type", format!("{pair}: cmp({}, {}) = {c1:?}, SimpleTerm says {cs:?}", terms[*i].nq(), terms[*j].nq()), *i, *j);
            }
            if rank_of(x.kind()) != ri {
                push("kind", format!("{}: kind() of {} is {:?}", X::NAME, terms[*i].nq(), x.kind()), *i, *i);
            }
        }
        // std::hash::Hash agrees with equality inside the type
        if let Some(sx) = X::std_hash(x) {
            for (i2, x2) in &xs {
                if terms[*i].key() == terms[*i2].key() && X::std_hash(x2) != Some(sx) {
                    push("std-hash", format!("{}: {} and {} are equal but std::hash::Hash differs", X::NAME, terms[*i].nq(), terms[*i2].nq()), *i, *i2);
                }
            }
        }
    }
    st.add(&format!("pairs[{pair}]"), (xs.len() * ys.len()) as u64);
    for (k, name) in ["same-term-same-spelling", "same-term-different-spelling", "ordered-less", "ordered-greater"].iter().enumerate() {
        if seen_classes[k] {
            st.outcome(name);
        }
    }
}

/// conversions of every realisation of X into the other provided term types
fn conversions<X: Real>(terms: &[ATerm], st: &mut Stats, out: &mut Vec<Violation>) {
    let mut arc_stash = ArcStrStash::new();
    let mut rc_stash = RcStrStash::new();
    for (i, a) in terms.iter().enumerate() {
        for x in X::make(a) {
            let model = a.key();
            let mut check = |name: &str, got: Result<ATerm, String>, eq_ok: bool| {
                st.inc("validated");
                st.inc("conversions");
                let ok = matches!(&got, Ok(g) if g.key() == model) && eq_ok;
                if !ok {
                    out.push(Violation::new(
                        format!("conversion:{}:{name}", X::NAME),
                        format!("{name} of {} ({}) gives {:?} (Term::eq with the source: {eq_ok})", a.nq(), X::NAME, got.map(|g| g.nq())),
                        json!({"left_type": X::NAME, "right_type": X::NAME, "left": terms[i].nq(), "right": terms[i].nq()}),
                    ));
                }
            };
            macro_rules! conv {
                ($name:expr, $e:expr) => {{
                    match guarded(|| {
                        let y = $e;
                        (ATerm::from_term(y.borrow_term()), Term::eq(&y, x.borrow_term()) && Term::eq(&x, y.borrow_term()))
                    }) {
                        Ok((m, e)) => check($name, Ok(m), e),
                        Err(p) => check($name, Err(format!("panic: {p}")), false),
                    }
                }};
            }
            conv!("borrow_term", x.borrow_term());
            conv!("as_simple", x.as_simple());
            conv!("SimpleTerm::from_term_ref", SimpleTerm::from_term_ref(&x));
            conv!("into_term::<SimpleTerm>", x.borrow_term().into_term::<SimpleTerm<'static>>());
            conv!("try_into_term::<SimpleTerm>", x.borrow_term().try_into_term::<SimpleTerm<'static>>().unwrap());
            conv!("into_term::<ArcTerm>", x.borrow_term().into_term::<ArcTerm>());
            conv!("into_term::<RcTerm>", x.borrow_term().into_term::<RcTerm>());
            conv!("into_term::<CmpTerm<SimpleTerm>>", x.borrow_term().into_term::<CmpTerm<SimpleTerm<'static>>>());
            conv!("CmpTerm(x)", CmpTerm(x.borrow_term()));
            conv!("ArcStrStash::copy_term", arc_stash.copy_term(x.borrow_term()));
            conv!("RcStrStash::copy_term", rc_stash.copy_term(x.borrow_term()));
            conv!("ResultTerm::from(ArcTerm)", sophia_sparql::ResultTerm::from(x.borrow_term().into_term::<ArcTerm>()));
            if matches!(a, ATerm::Lit(..)) {
                conv!("try_into_term::<GenericLiteral>", x.borrow_term().try_into_term::<GenericLiteral<String>>().unwrap());
            } else {
                st.inc("validated");
                if x.borrow_term().try_into_term::<GenericLiteral<String>>().is_ok() {
                    out.push(Violation::new(format!("conversion:{}:GenericLiteral-from-non-literal", X::NAME), format!("{} converted to a GenericLiteral", a.nq()), json!({})));
                }
            }
            if let ATerm::Triple(_) = a {
                // the components of a quoted triple, through both accessors
                let comps: Vec<ATerm> = x.triple().map(|t| t.into_iter().map(|c| ATerm::from_term(c)).collect()).unwrap_or_default();
                let ATerm::Triple(exp) = a else { unreachable!() };
                if comps.iter().map(|c| c.key()).collect::<Vec<_>>() != exp.iter().map(|c| c.key()).collect::<Vec<_>>() {
                    out.push(Violation::new(format!("conversion:{}:triple", X::NAME), format!("triple() of {} gives {:?}", a.nq(), comps), json!({})));
                }
            }
        }
    }
}

/// transitivity of cmp and eq over all triples of realisations of X
fn transitivity<X: Real>(terms: &[ATerm], st: &mut Stats, out: &mut Vec<Violation>)
where
    X::T: Sync,
{
    let xs: Vec<(usize, X::T)> = terms.iter().enumerate().flat_map(|(i, a)| X::make(a).into_iter().map(move |t| (i, t))).collect();
    let n = xs.len();
    // cmp matrix
    let m: Vec<Vec<Ordering>> = xs.par_iter().map(|(_, a)| xs.iter().map(|(_, b)| Term::cmp(a, b.borrow_term())).collect()).collect();
    let bad: Vec<(usize, usize, usize)> = (0..n)
        .into_par_iter()
        .flat_map_iter(|a| {
            let mut v = vec![];
            for b in 0..n {
                if m[a][b] == Ordering::Greater {
                    continue;
                }
                for c in 0..n {
                    // a <= b and b <= c  =>  a <= c ; with equality only if both are equalities
                    if m[b][c] != Ordering::Greater {
                        let exp_le = m[a][c] != Ordering::Greater;
                        let both_eq = m[a][b] == Ordering::Equal && m[b][c] == Ordering::Equal;
                        if !exp_le || (both_eq != (m[a][c] == Ordering::Equal) && both_eq) || (m[a][c] == Ordering::Equal && !both_eq && (m[a][b] == Ordering::Less || m[b][c] == Ordering::Less)) {
                            if v.len() < 5 {
                                v.push((a, b, c));
                            }
                        }
                    }
                }
            }
            v
        })
        .collect();
    st.add("validated", (n * n * n) as u64);
    st.add(&format!("triples[{}]", X::NAME), (n * n * n) as u64);
    for (a, b, c) in bad.into_iter().take(20) {
        out.push(Violation::new(
            format!("cmp-not-transitive:{}", X::NAME),
            format!("{}: {} <= {} <= {} but cmp(first, last) = {:?}", X::NAME, terms[xs[a].0].nq(), terms[xs[b].0].nq(), terms[xs[c].0].nq(), m[a][c]),
            json!({"left_type": X::NAME, "right_type": X::NAME, "left": terms[xs[a].0].nq(), "right": terms[xs[c].0].nq(), "middle": terms[xs[b].0].nq()}),
        ));
    }
}

/// compare a term of a type that only exists inside a parser callback with all SimpleTerm/ArcTerm realisations
fn compare_foreign<T: Term>(t: T, label: &str, a: &ATerm, i: usize, terms: &[ATerm], simple: &[SimpleTerm<'static>], arcs: &[ArcTerm], st: &mut Stats, out: &mut Vec<Violation>) {
    let model = ATerm::from_term(t.borrow_term());
    if model.key() != a.key() {
        out.push(Violation::new(format!("{label}:realisation-differs"), format!("{} reads back as {}", a.nq(), model.nq()), json!({"left": a.nq(), "right": a.nq(), "left_type": label, "right_type": label})));
        return;
    }
    let ht = term_hash(&t);
    for (j, s) in simple.iter().enumerate() {
        st.inc("validated");
        st.inc("foreign_pairs");
        let model_eq = a.key() == terms[j].key();
        let cs = Term::cmp(&simple[i], s);
        let (e1, e2, e3) = (Term::eq(&t, s), Term::eq(s, t.borrow_term()), Term::eq(&t, &arcs[j]));
        let (c1, c2, c3) = (Term::cmp(&t, s), Term::cmp(s, t.borrow_term()), Term::cmp(&t, &arcs[j]));
        let ok = e1 == model_eq && e2 == model_eq && e3 == model_eq && c1 == cs && c2 == cs.reverse() && c3 == cs && (!model_eq || ht == term_hash(s));
        if !ok && out.len() < 2000 {
            out.push(Violation::new(
                format!("{label}:pair"),
                format!("{label} term {} vs {}: eq {e1}/{e2}/{e3} (model {model_eq}), cmp {c1:?}/{c2:?}/{c3:?} (SimpleTerm {cs:?}), hash equal: {}", a.nq(), terms[j].nq(), ht == term_hash(s)),
                json!({"left": a.nq(), "right": terms[j].nq(), "left_type": label, "right_type": "SimpleTerm(owned)"}),
            ));
        }
    }
}

/// terms yielded by the Rio-based parsers (types `Trusted<...>`), compared inside the callback
fn rio_terms(terms: &[ATerm], simple: &[SimpleTerm<'static>], st: &mut Stats, out: &mut Vec<Violation>) {
    use sophia_api::parser::QuadParser;
    let arcs: Vec<ArcTerm> = simple.iter().map(|s| ArcTerm::from_term(s)).collect();
    for (i, a) in terms.iter().enumerate() {
        let t = a.nq();
        let docs = [
            (format!("{t} <x:p> <x:o> <x:g> .\n"), 0usize),
            (format!("<x:s> {t} <x:o> <x:g> .\n"), 1),
            (format!("<x:s> <x:p> {t} <x:g> .\n"), 2),
            (format!("<x:s> <x:p> <x:o> {t} .\n"), 3),
        ];
        for (doc, pos) in docs {
            macro_rules! drive {
                ($parser:expr, $label:expr) => {{
                    let mut src = $parser.parse_str(&doc);
                    let mut seen = false;
                    let _ = src.for_each_quad(|q| {
                        seen = true;
                        let label = format!("rio-{}-pos{pos}", $label);
                        match pos {
                            0 => compare_foreign(q.s(), &label, a, i, terms, simple, &arcs, st, out),
                            1 => compare_foreign(q.p(), &label, a, i, terms, simple, &arcs, st, out),
                            2 => compare_foreign(q.o(), &label, a, i, terms, simple, &arcs, st, out),
                            _ => {
                                if let Some(g) = q.g() {
                                    compare_foreign(g, &label, a, i, terms, simple, &arcs, st, out)
                                }
                            }
                        }
                    });
                    if seen {
                        st.inc("rio_terms");
                    }
                }};
            }
            drive!(sophia_turtle::parser::nq::NQuadsParser {}, "strict");
            drive!(sophia_turtle::parser::gnq::GNQuadsParser {}, "generalized");
        }
    }
}

/// canonicalisation terms (`C14nTerm`): blank nodes are renamed by `relabel`, everything else is kept
fn c14n_terms(terms: &[ATerm], simple: &[SimpleTerm<'static>], st: &mut Stats, out: &mut Vec<Violation>) {
    use std::collections::HashSet;
    for (i, a) in terms.iter().enumerate() {
        if !matches!(a, ATerm::Iri(_) | ATerm::Lit(..) | ATerm::Bnode(_)) {
            continue;
        }
        let mut d: HashSet<SQuad> = HashSet::new();
        d.insert(([ATerm::iri("x:s").to_simple(), ATerm::iri("x:p").to_simple(), a.to_simple()], None));
        let Ok((quads, _map)) = sophia_c14n::rdfc10::relabel(&d) else { continue };
        for q in &quads {
            let o = q.o();
            let expected: ATerm = if let ATerm::Bnode(_) = a { ATerm::b("c14n0") } else { a.clone() };
            let es = expected.to_simple();
            let m = ATerm::from_term(o.borrow_term());
            st.inc("validated");
            st.inc("c14n_terms");
            if m.key() != expected.key() {
                out.push(Violation::new("c14n:realisation-differs", format!("{} becomes {}", a.nq(), m.nq()), json!({})));
                continue;
            }
            for (j, s) in simple.iter().enumerate() {
                let model_eq = expected.key() == terms[j].key();
                let cs = Term::cmp(&es, s);
                let ok = Term::eq(&o, s) == model_eq && Term::eq(s, o.borrow_term()) == model_eq && Term::cmp(&o, s) == cs && Term::cmp(s, o.borrow_term()) == cs.reverse() && (!model_eq || term_hash(&o) == term_hash(s));
                st.inc("validated");
                if !ok {
                    out.push(Violation::new(
                        "c14n:pair",
                        format!("C14nTerm {} vs {}: eq {} / cmp {:?} (expected eq {model_eq} / cmp {cs:?})", m.nq(), terms[j].nq(), Term::eq(&o, s), Term::cmp(&o, s)),
                        json!({"left": expected.nq(), "right": terms[j].nq(), "left_type": "c14n", "right_type": "SimpleTerm(owned)"}),
                    ));
                }
            }
        }
        let _ = i;
    }
}

macro_rules! for_all_pairs {
    ([$($x:ty),*], $ys:tt, $terms:expr, $simple:expr, $st:expr, $out:expr) => {
        $( for_all_pairs!(@row $x, $ys, $terms, $simple, $st, $out); )*
    };
    (@row $x:ty, [$($y:ty),*], $terms:expr, $simple:expr, $st:expr, $out:expr) => {
        $( cross::<$x, $y>($terms, $simple, $st, $out); )*
    };
}
macro_rules! for_all {
    ($f:ident, [$($x:ty),*], $terms:expr, $st:expr, $out:expr) => {
        $( $f::<$x>($terms, $st, $out); )*
    };
}

pub fn run(tier: Tier) -> Report {
    let mut rep = Report::new("C02", tier);
    let terms = term_set(tier);
    let simple: Vec<SimpleTerm<'static>> = terms.iter().map(|t| t.to_simple()).collect();
    rep.stats.add("terms", terms.len() as u64);
    rep.stats.add("states", terms.len() as u64);
    let mut st = Stats::default();
    let mut out: Vec<Violation> = vec![];
    for_all_pairs!(
        [RSimpleOwned, RSimpleBorrowed, RRef, RCmp, RArc, RRc, RGenLit, RBnode, RVar, RIri, RIriRef, RNs, RI32, RIsize, RUsize, RF64, RBool, RStr, RResult],
        [RSimpleOwned, RSimpleBorrowed, RRef, RCmp, RArc, RRc, RGenLit, RBnode, RVar, RIri, RIriRef, RNs, RI32, RIsize, RUsize, RF64, RBool, RStr, RResult],
        &terms,
        &simple,
        &mut st,
        &mut out
    );
    for_all!(conversions, [RSimpleOwned, RSimpleBorrowed, RRef, RCmp, RArc, RRc, RGenLit, RBnode, RVar, RIri, RIriRef, RNs, RI32, RIsize, RUsize, RF64, RBool, RStr, RResult], &terms, &mut st, &mut out);
    transitivity::<RSimpleOwned>(&terms, &mut st, &mut out);
    transitivity::<RArc>(&terms, &mut st, &mut out);
    transitivity::<RCmp>(&terms, &mut st, &mut out);
    rio_terms(&terms, &simple, &mut st, &mut out);
    c14n_terms(&terms, &simple, &mut st, &mut out);
    rep.stats.merge(&st);
    let pairs = rep.stats.get("validated");
    rep.stats.add("transitions", pairs);
    // non-trivial: distinct unordered pairs of *equal but differently written* terms + distinct terms
    let mut nontrivial = 0;
    for i in 0..terms.len() {
        for j in 0..terms.len() {
            if i != j && terms[i] != terms[j] && terms[i].key() == terms[j].key() {
                nontrivial += 1;
            }
        }
    }
    rep.stats.add("nontrivial", nontrivial + terms.len() as u64);
    rep.stats.sample(json!({"terms": [terms[terms.len() / 3].nq(), terms[terms.len() - 1].nq()]}));
    for v in &out {
        rep.stats.outcome(v.sig.split(':').next().unwrap_or(""));
    }
    rep.violations = out;
    rep.rule = format!(
        "{} abstract terms (IRIs incl. one in the rdf: namespace and one prefix of another, blank nodes, variables sharing a name with a blank node, literals over lexical forms ['',a,é,b] x 4 datatypes x language tags [en,EN,en-US,fr,En-us], native values, quoted triples up to depth 2) realised in 19 Term implementations (SimpleTerm owned/borrowed, &T, CmpTerm, ArcTerm, RcTerm, GenericLiteral, BnodeId, VarName, Iri, IriRef, NsTerm at every split point, i32, isize, usize, f64, bool, &str, sparql ResultTerm) plus Rio Trusted<..> terms (strict and generalized N-Quads parser, 4 positions) and C14nTerm; all ordered pairs of realisations for eq/hash/cmp against the structural model and against SimpleTerm's order, all triples for transitivity on SimpleTerm/ArcTerm/CmpTerm, 13 conversion paths per realisation; non-trivial = pairs of equal terms written differently (case-variant tags) + distinct terms",
        terms.len()
    );
    rep.bounds = json!({"terms": terms.len()});
    rep.assumptions = vec!["the model of term identity is structural equality on (kind, IRI / label / (lexical form, datatype, lower-cased tag) / components / name)".into(), "the order inside one kind is free; only totality, consistency with equality, the kind order and independence from the holding type are required".into()];
    rep
}

pub fn replay(case: &Value) -> Vec<Violation> {
    // re-run the complete quick check restricted to the two (three) recorded terms
    use crate::model::refnq::parse_term;
    let mut terms = vec![];
    for k in ["left", "middle", "right"] {
        if let Some(t) = case[k].as_str().and_then(|s| parse_term(s).ok()) {
            terms.push(t);
        }
    }
    if terms.is_empty() {
        return vec![Violation::new("replay-error", "no terms in case", case.clone())];
    }
    let simple: Vec<SimpleTerm<'static>> = terms.iter().map(|t| t.to_simple()).collect();
    let mut st = Stats::default();
    let mut out = vec![];
    for_all_pairs!(
        [RSimpleOwned, RSimpleBorrowed, RRef, RCmp, RArc, RRc, RGenLit, RBnode, RVar, RIri, RIriRef, RNs, RI32, RIsize, RUsize, RF64, RBool, RStr, RResult],
        [RSimpleOwned, RSimpleBorrowed, RRef, RCmp, RArc, RRc, RGenLit, RBnode, RVar, RIri, RIriRef, RNs, RI32, RIsize, RUsize, RF64, RBool, RStr, RResult],
        &terms,
        &simple,
        &mut st,
        &mut out
    );
    for_all!(conversions, [RSimpleOwned, RSimpleBorrowed, RRef, RCmp, RArc, RRc, RGenLit, RBnode, RVar, RIri, RIriRef, RNs, RI32, RIsize, RUsize, RF64, RBool, RStr, RResult], &terms, &mut st, &mut out);
    transitivity::<RSimpleOwned>(&terms, &mut st, &mut out);
    rio_terms(&terms, &simple, &mut st, &mut out);
    c14n_terms(&terms, &simple, &mut st, &mut out);
    out
}
