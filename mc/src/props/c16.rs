//! C16 — stack use does not grow with the amount of data processed (E5 ladder + high-water oracle).
//!
//! Case space: operation x build profile x mode.  Mode `slope` runs the operation at two sizes on
//! a painted 2 MiB thread stack and compares the stack high-water marks (growth is detected
//! long before it would overflow); mode `big(n)` runs it at n on a plain 2 MiB thread in a child
//! process (an overflow kills the child; the pool attributes the death to the case).
use crate::fw::*;
use crate::pool::{Pooled, my_profile};
use crate::stack;
use serde_json::{Value, json};
use sophia_api::dataset::{Dataset, MutableDataset};
use sophia_api::graph::{Graph, MutableGraph};
use sophia_api::parser::QuadParser;
use sophia_api::quad::Spog;
use sophia_api::serializer::{QuadSerializer, Stringifier, TripleSerializer};
use sophia_api::source::{QuadSource, TripleSource};
use sophia_api::sparql::{SparqlDataset, SparqlResult};
use sophia_api::term::matcher::{Any, GraphNameMatcher, TermMatcher};
use sophia_api::term::{BnodeId, GraphName, IriRef, SimpleTerm, Term};
use sophia_inmem::dataset::{FastDataset, LightDataset};
use sophia_inmem::graph::{FastGraph, LightGraph};
use sophia_jsonld::{JsonLdOptions, JsonLdParser, JsonLdSerializer};
use sophia_sparql::SparqlWrapper;
use sophia_turtle::serializer::nq::NqSerializer;
use sophia_turtle::serializer::nt::NtSerializer;
use sophia_turtle::serializer::trig::{TrigConfig, TrigSerializer};
use sophia_turtle::serializer::turtle::{TurtleConfig, TurtleSerializer};
use sophia_xml::serializer::{RdfXmlConfig, RdfXmlSerializer};
use std::time::Instant;

pub struct C16;

type ST = SimpleTerm<'static>;
type Q = Spog<ST>;
type T = [ST; 3];

pub const STACK: usize = 2 << 20;
/// slope sizes: the second run processes N2-N1 more elements than the first
const N1: usize = 200;
const N2: usize = 2200;
/// allowed difference of the two high-water marks (bytes): covers allocator/sort/B-tree depth noise,
/// far below 2000 frames of any real function
const TOLERANCE: usize = 12 << 10;

fn iri(s: String) -> ST {
    SimpleTerm::Iri(IriRef::new_unchecked(s.into()))
}
fn v(i: usize) -> ST {
    iri(format!("http://ex.org/v{i}"))
}
fn ex(l: &str) -> ST {
    iri(format!("http://ex.org/{l}"))
}
fn b(i: usize) -> ST {
    SimpleTerm::BlankNode(BnodeId::new_unchecked(format!("b{i}").into()))
}
fn lit(s: String) -> ST {
    SimpleTerm::LiteralDatatype(s.into(), IriRef::new_unchecked("http://www.w3.org/2001/XMLSchema#string".into()))
}
fn rdf(l: &str) -> ST {
    iri(format!("http://www.w3.org/1999/02/22-rdf-syntax-ns#{l}"))
}

// ---------------------------------------------------------------- matchers
#[derive(Clone)]
enum M {
    Any,
    Const(ST),
    /// a shipped non-constant matcher (`[T; 2]`) accepting only two terms
    Two([ST; 2]),
}
impl TermMatcher for M {
    type Term = ST;
    fn matches<T2: Term + ?Sized>(&self, term: &T2) -> bool {
        match self {
            M::Any => TermMatcher::matches(&Any, term),
            M::Const(c) => TermMatcher::matches(&[c.clone()], term),
            M::Two(m) => TermMatcher::matches(m, term),
        }
    }
    fn constant(&self) -> Option<&ST> {
        match self {
            M::Const(c) => Some(c),
            _ => None,
        }
    }
}
#[derive(Clone)]
enum G {
    Any,
    Const(Option<ST>),
    Two([Option<ST>; 2]),
}
impl GraphNameMatcher for G {
    type Term = ST;
    fn matches<T2: Term + ?Sized>(&self, g: GraphName<&T2>) -> bool {
        match self {
            G::Any => GraphNameMatcher::matches(&Any, g),
            G::Const(c) => GraphNameMatcher::matches(&[c.clone()], g),
            G::Two(m) => GraphNameMatcher::matches(m, g),
        }
    }
    fn constant(&self) -> Option<GraphName<&ST>> {
        match self {
            G::Const(c) => Some(c.as_ref()),
            _ => None,
        }
    }
}

type Job = Box<dyn FnOnce() -> Result<u64, String> + Send>;

// ---------------------------------------------------------------- data shapes
/// n quads equal everywhere except at position `r` (0=s 1=p 2=o 3=g), where quad i has v(i)
fn varying(n: usize, r: usize) -> Vec<Q> {
    (0..n)
        .map(|i| {
            let mut spo = [ex("s0"), ex("p0"), ex("o0")];
            let mut g = Some(ex("g0"));
            if r < 3 {
                spo[r] = v(i);
            } else {
                g = Some(v(i));
            }
            (spo, g)
        })
        .collect()
}
fn skip_matchers(n: usize, mask: u8, r: usize) -> ([M; 3], G) {
    let fixed = [ex("s0"), ex("p0"), ex("o0")];
    let only = [v(n - 1), ex("nothing")];
    let tm = |pos: usize| {
        if pos == r {
            M::Two(only.clone())
        } else if mask & (1 << pos) != 0 {
            M::Const(fixed[pos].clone())
        } else {
            M::Any
        }
    };
    let gm = if r == 3 {
        G::Two([Some(only[0].clone()), Some(only[1].clone())])
    } else if mask & 8 != 0 {
        G::Const(Some(ex("g0")))
    } else {
        G::Any
    };
    ([tm(0), tm(1), tm(2)], gm)
}
fn list_triples(n: usize) -> Vec<T> {
    let mut out = vec![[ex("s0"), ex("p0"), if n == 0 { rdf("nil") } else { b(0) }]];
    for i in 0..n {
        out.push([b(i), rdf("first"), v(i)]);
        out.push([b(i), rdf("rest"), if i + 1 == n { rdf("nil") } else { b(i + 1) }]);
    }
    out
}
fn shape_triples(shape: &str, n: usize) -> Vec<T> {
    match shape {
        "subjects" => (0..n).map(|i| [v(i), ex("p0"), ex("o0")]).collect(),
        "predicates" => (0..n).map(|i| [ex("s0"), v(i), ex("o0")]).collect(),
        "objects" => (0..n).map(|i| [ex("s0"), ex("p0"), v(i)]).collect(),
        "literals" => (0..n).map(|i| [ex("s0"), ex("p0"), lit(format!("l{i}"))]).collect(),
        "bnodes" => (0..n).map(|i| [b(i), ex("p0"), lit(format!("l{i}"))]).collect(),
        "list" => list_triples(n),
        _ => unreachable!("{shape}"),
    }
}
const SHAPES: [&str; 6] = ["subjects", "predicates", "objects", "literals", "bnodes", "list"];
fn in_graphs(ts: Vec<T>, named: bool) -> Vec<Q> {
    ts.into_iter().enumerate().map(|(i, t)| (t, if named { Some(v(i)) } else { None })).collect()
}

fn nt_term(t: &ST) -> String {
    match t {
        SimpleTerm::Iri(i) => format!("<{}>", i.as_str()),
        SimpleTerm::BlankNode(l) => format!("_:{}", l.as_str()),
        SimpleTerm::LiteralDatatype(l, _) => format!("\"{l}\""),
        _ => unreachable!(),
    }
}
fn nt_doc(ts: &[T]) -> String {
    let mut s = String::new();
    for t in ts {
        s.push_str(&format!("{} {} {} .\n", nt_term(&t[0]), nt_term(&t[1]), nt_term(&t[2])));
    }
    s
}
fn nq_doc(n: usize) -> String {
    let mut s = String::new();
    for i in 0..n {
        s.push_str(&format!("<http://ex.org/v{i}> <http://ex.org/p0> \"l{i}\" <http://ex.org/g{i}> .\n"));
    }
    s
}

// ---------------------------------------------------------------- operations
pub fn op_names() -> Vec<String> {
    let mut v = vec![];
    // A: pattern queries whose non-constant matcher rejects all rows but the last
    for store in ["LD", "FD"] {
        for mask in 0u8..16 {
            for r in 0..4 {
                if mask & (1 << r) == 0 {
                    v.push(format!("skip:{store}:{mask}:{r}"));
                }
            }
        }
    }
    for store in ["LG", "FG"] {
        for mask in 0u8..8 {
            for r in 0..3 {
                if mask & (1 << r) == 0 {
                    v.push(format!("skip:{store}:{mask}:{r}"));
                }
            }
        }
    }
    for store in ["LD", "FD", "LG", "FG"] {
        for what in ["subjects", "predicates", "objects", "graph_names", "iris", "literals", "blank_nodes", "all"] {
            if what == "graph_names" && store.ends_with('G') {
                continue;
            }
            v.push(format!("enum:{store}:{what}"));
        }
    }
    // B: one literal with n escaped characters
    for ser in ["nt", "nq", "turtle", "turtle-pretty", "trig", "trig-pretty", "jsonld", "xml"] {
        for ch in ["newline", "return", "quote", "backslash", "mixed"] {
            v.push(format!("escape:{ser}:{ch}"));
        }
    }
    // C: SPARQL
    for q in [
        "graphs", "graphs-empty", "graphs-filter", "bgp", "bgp-repeated-var", "join", "filter", "union", "optional", "distinct", "order-by",
        "offset", "bind", "ask-last", "minus",
    ] {
        v.push(format!("sparql:{q}"));
    }
    // D/E: serialising n statements of various shapes (incl. one list of n items)
    for ser in ["nt", "turtle", "turtle-pretty", "xml"] {
        for shape in SHAPES {
            v.push(format!("ser:{ser}:{shape}"));
        }
    }
    for ser in ["nq", "trig", "trig-pretty", "jsonld"] {
        for shape in SHAPES {
            v.push(format!("ser:{ser}:{shape}"));
            v.push(format!("ser:{ser}:{shape}-in-graphs"));
        }
    }
    // E: parsing n statements / one list of n items
    for p in ["nt", "nq", "turtle", "trig", "gnq", "gtrig", "xml", "jsonld"] {
        v.push(format!("parse:{p}:statements"));
    }
    for p in ["turtle", "trig", "gtrig", "xml", "jsonld"] {
        v.push(format!("parse:{p}:list"));
    }
    for p in ["turtle", "trig"] {
        v.push(format!("parse:{p}:predicate-list"));
        v.push(format!("parse:{p}:object-list"));
    }
    v.push("parse:jsonld:graphs".into());
    // F: mutation
    for store in ["LD", "FD", "LG", "FG", "VecD", "VecG"] {
        for m in ["insert_all", "remove_matching", "retain_matching", "remove_each"] {
            v.push(format!("mutate:{store}:{m}"));
        }
    }
    // G: canonicalisation / isomorphism of n statements
    for k in ["ground", "bnodes"] {
        v.push(format!("c14n:{k}"));
        v.push(format!("iso:{k}"));
    }
    v
}

fn count_quads<D: Dataset>(d: &D, m: ([M; 3], G)) -> Result<u64, String> {
    let ([sm, pm, om], gm) = m;
    let mut k = 0;
    for q in d.quads_matching(sm, pm, om, gm) {
        q.map_err(|e| e.to_string())?;
        k += 1;
    }
    Ok(k)
}
fn count_triples<Gr: Graph>(g: &Gr, m: [M; 3]) -> Result<u64, String> {
    let [sm, pm, om] = m;
    let mut k = 0;
    for t in g.triples_matching(sm, pm, om) {
        t.map_err(|e| e.to_string())?;
        k += 1;
    }
    Ok(k)
}
fn cnt<I, X, E: std::fmt::Display>(it: I) -> Result<u64, String>
where
    I: Iterator<Item = Result<X, E>>,
{
    let mut k = 0;
    for x in it {
        x.map_err(|e| e.to_string())?;
        k += 1;
    }
    Ok(k)
}
macro_rules! enum_ds {
    ($d:expr, $what:expr) => {{
        let d = $d;
        match $what {
            "subjects" => cnt(d.subjects()),
            "predicates" => cnt(d.predicates()),
            "objects" => cnt(d.objects()),
            "graph_names" => cnt(d.graph_names()),
            "iris" => cnt(d.iris()),
            "literals" => cnt(d.literals()),
            "blank_nodes" => cnt(d.blank_nodes()),
            _ => cnt(d.quads()),
        }
    }};
}
macro_rules! enum_gr {
    ($d:expr, $what:expr) => {{
        let d = $d;
        match $what {
            "subjects" => cnt(d.subjects()),
            "predicates" => cnt(d.predicates()),
            "objects" => cnt(d.objects()),
            "iris" => cnt(d.iris()),
            "literals" => cnt(d.literals()),
            "blank_nodes" => cnt(d.blank_nodes()),
            _ => cnt(d.triples()),
        }
    }};
}

fn mixed_quads(n: usize) -> Vec<Q> {
    (0..n)
        .map(|i| ([if i % 2 == 0 { v(i) } else { b(i) }, v(i + 1), if i % 3 == 0 { lit(format!("l{i}")) } else { v(i + 2) }], Some(v(i))))
        .collect()
}

fn escape_text(ch: &str, n: usize) -> String {
    match ch {
        "newline" => "\n".repeat(n),
        "return" => "\r".repeat(n),
        "quote" => "\"".repeat(n),
        "backslash" => "\\".repeat(n),
        _ => "a\nb\"c\\d\re".repeat(n / 4 + 1),
    }
}

type JOpts = JsonLdOptions<sophia_jsonld::loader_factory::DefaultLoaderFactory<sophia_jsonld::loader::NoLoader>>;

fn ser_triples(ser: &str, ts: Vec<T>) -> Job {
    let ser = ser.to_string();
    Box::new(move || {
        let src = ts.iter().map(|t| Ok::<_, std::convert::Infallible>([t[0].clone(), t[1].clone(), t[2].clone()]));
        let out = match ser.as_str() {
            "nt" => NtSerializer::new_stringifier().serialize_triples(src).map_err(|e| e.to_string())?.to_string(),
            "turtle" => TurtleSerializer::new_stringifier().serialize_triples(src).map_err(|e| e.to_string())?.to_string(),
            "turtle-pretty" => TurtleSerializer::new_stringifier_with_config(TurtleConfig::new().with_pretty(true))
                .serialize_triples(src)
                .map_err(|e| e.to_string())?
                .to_string(),
            "xml" => RdfXmlSerializer::new_stringifier_with_config(RdfXmlConfig::new().with_indentation(2))
                .serialize_triples(src)
                .map_err(|e| e.to_string())?
                .to_string(),
            _ => unreachable!(),
        };
        Ok(out.len() as u64)
    })
}
fn ser_quads(ser: &str, qs: Vec<Q>) -> Job {
    let ser = ser.to_string();
    Box::new(move || {
        let src = qs.iter().map(|q| Ok::<_, std::convert::Infallible>(q.clone()));
        let out = match ser.as_str() {
            "nq" => NqSerializer::new_stringifier().serialize_quads(src).map_err(|e| e.to_string())?.to_string(),
            "trig" => TrigSerializer::new_stringifier().serialize_quads(src).map_err(|e| e.to_string())?.to_string(),
            "trig-pretty" => TrigSerializer::new_stringifier_with_config(TrigConfig::new().with_pretty(true))
                .serialize_quads(src)
                .map_err(|e| e.to_string())?
                .to_string(),
            "jsonld" => {
                let o: JOpts = JsonLdOptions::new().with_spaces(2);
                JsonLdSerializer::new_stringifier_with_options(o).serialize_quads(src).map_err(|e| e.to_string())?.to_string()
            }
            _ => unreachable!(),
        };
        Ok(out.len() as u64)
    })
}

fn sparql_job(kind: &str, n: usize) -> Job {
    let last = n - 1;
    let (data, q): (Vec<Q>, String) = match kind {
        "graphs" => (varying(n, 3), "SELECT ?g ?s { GRAPH ?g { ?s ?p ?o } }".into()),
        "graphs-empty" => (varying(n, 3), "SELECT ?g ?s { GRAPH ?g { ?s <http://ex.org/nothing> ?o } }".into()),
        "graphs-filter" => (varying(n, 3), format!("SELECT ?g {{ GRAPH ?g {{ ?s ?p ?o }} FILTER(?g = <http://ex.org/v{last}>) }}")),
        "bgp" => (in_graphs(shape_triples("subjects", n), false), "SELECT * { ?s ?p ?o }".into()),
        "bgp-repeated-var" => {
            let mut d = in_graphs(shape_triples("subjects", n), false);
            d.push(([ex("z"), ex("p0"), ex("z")], None));
            (d, "SELECT * { ?s ?p ?s }".into())
        }
        "join" => {
            let mut d = in_graphs(shape_triples("subjects", n), false);
            d.push(([ex("o0"), ex("q"), ex("z")], None));
            (d, "SELECT * { ?s <http://ex.org/p0> ?o . ?o <http://ex.org/q> ?z }".into())
        }
        "filter" => (in_graphs(shape_triples("subjects", n), false), format!("SELECT * {{ ?s ?p ?o FILTER(?s = <http://ex.org/v{last}>) }}")),
        "union" => (in_graphs(shape_triples("subjects", n), false), "SELECT * { { ?s ?p ?o } UNION { ?o ?p ?s } }".into()),
        "optional" => (in_graphs(shape_triples("subjects", n), false), "SELECT * { ?s ?p ?o OPTIONAL { ?o <http://ex.org/q> ?z } }".into()),
        "distinct" => (in_graphs(shape_triples("subjects", n), false), "SELECT DISTINCT ?p ?o { ?s ?p ?o }".into()),
        "order-by" => (in_graphs(shape_triples("literals", n), false), "SELECT * { ?s ?p ?o } ORDER BY DESC(?o)".into()),
        "offset" => (in_graphs(shape_triples("subjects", n), false), format!("SELECT * {{ ?s ?p ?o }} OFFSET {last}")),
        "bind" => (in_graphs(shape_triples("subjects", n), false), "SELECT * { ?s ?p ?o BIND(str(?s) AS ?x) }".into()),
        "ask-last" => (in_graphs(shape_triples("subjects", n), false), format!("ASK {{ ?s ?p ?o FILTER(?s = <http://ex.org/v{last}>) }}")),
        "minus" => (in_graphs(shape_triples("subjects", n), false), "SELECT * { ?s ?p ?o MINUS { ?s <http://ex.org/q> ?z } }".into()),
        _ => unreachable!("{kind}"),
    };
    let ds: FastDataset = data.into_iter().map(Ok::<_, std::convert::Infallible>).collect_quads().expect("build dataset");
    Box::new(move || {
        let w = SparqlWrapper(&ds);
        match w.query(q.as_str()) {
            Ok(SparqlResult::Bindings(b)) => {
                let mut k = 0;
                for row in b {
                    row.map_err(|e| e.to_string())?;
                    k += 1;
                }
                Ok(k)
            }
            Ok(SparqlResult::Boolean(x)) => Ok(x as u64),
            Ok(SparqlResult::Triples(_)) => Ok(0),
            Err(e) => Err(e.to_string()),
        }
    })
}

fn parse_job(fmt: &str, what: &str, n: usize) -> Job {
    let items: String = (0..n).map(|i| format!("<http://ex.org/v{i}> ")).collect();
    let doc: String = match (fmt, what) {
        ("nt" | "turtle", "statements") => nt_doc(&shape_triples("bnodes", n)),
        ("nq" | "gnq", "statements") => nq_doc(n),
        ("trig" | "gtrig", "statements") => (0..n).map(|i| format!("<http://ex.org/g{i}> {{ <http://ex.org/v{i}> <http://ex.org/p0> \"l{i}\" . }}\n")).collect(),
        ("xml", "statements") => {
            let mut s = String::from("<rdf:RDF xmlns:rdf=\"http://www.w3.org/1999/02/22-rdf-syntax-ns#\" xmlns:e=\"http://ex.org/\">\n");
            for i in 0..n {
                s.push_str(&format!("<rdf:Description rdf:about=\"http://ex.org/v{i}\"><e:p0>l{i}</e:p0></rdf:Description>\n"));
            }
            s.push_str("</rdf:RDF>");
            s
        }
        ("jsonld", "statements") => {
            let nodes: Vec<String> = (0..n).map(|i| format!("{{\"@id\":\"http://ex.org/v{i}\",\"http://ex.org/p0\":[{{\"@value\":\"l{i}\"}}]}}")).collect();
            format!("[{}]", nodes.join(","))
        }
        ("jsonld", "graphs") => {
            let nodes: Vec<String> =
                (0..n).map(|i| format!("{{\"@id\":\"http://ex.org/g{i}\",\"@graph\":[{{\"@id\":\"http://ex.org/v{i}\",\"http://ex.org/p0\":[{{\"@value\":\"l{i}\"}}]}}]}}")).collect();
            format!("[{}]", nodes.join(","))
        }
        ("turtle", "list") => format!("<http://ex.org/s0> <http://ex.org/p0> ( {items}) .\n"),
        ("trig" | "gtrig", "list") => format!("<http://ex.org/g0> {{ <http://ex.org/s0> <http://ex.org/p0> ( {items}) . }}\n"),
        ("xml", "list") => {
            let mut s = String::from(
                "<rdf:RDF xmlns:rdf=\"http://www.w3.org/1999/02/22-rdf-syntax-ns#\" xmlns:e=\"http://ex.org/\"><rdf:Description rdf:about=\"http://ex.org/s0\"><e:p0 rdf:parseType=\"Collection\">\n",
            );
            for i in 0..n {
                s.push_str(&format!("<rdf:Description rdf:about=\"http://ex.org/v{i}\"/>\n"));
            }
            s.push_str("</e:p0></rdf:Description></rdf:RDF>");
            s
        }
        ("jsonld", "list") => {
            let it: Vec<String> = (0..n).map(|i| format!("{{\"@id\":\"http://ex.org/v{i}\"}}")).collect();
            format!("[{{\"@id\":\"http://ex.org/s0\",\"http://ex.org/p0\":[{{\"@list\":[{}]}}]}}]", it.join(","))
        }
        ("turtle", "predicate-list") => format!("<http://ex.org/s0> {} .\n", (0..n).map(|i| format!("<http://ex.org/v{i}> <http://ex.org/o0>")).collect::<Vec<_>>().join(" ; ")),
        ("trig", "predicate-list") => format!("{{ <http://ex.org/s0> {} . }}\n", (0..n).map(|i| format!("<http://ex.org/v{i}> <http://ex.org/o0>")).collect::<Vec<_>>().join(" ; ")),
        ("turtle", "object-list") => format!("<http://ex.org/s0> <http://ex.org/p0> {} .\n", (0..n).map(|i| format!("<http://ex.org/v{i}>")).collect::<Vec<_>>().join(" , ")),
        ("trig", "object-list") => format!("{{ <http://ex.org/s0> <http://ex.org/p0> {} . }}\n", (0..n).map(|i| format!("<http://ex.org/v{i}>")).collect::<Vec<_>>().join(" , ")),
        _ => unreachable!("{fmt} {what}"),
    };
    let fmt = fmt.to_string();
    Box::new(move || {
        let mut k = 0u64;
        match fmt.as_str() {
            "nt" => sophia_turtle::parser::nt::parse_str(&doc).for_each_triple(|_| k += 1).map_err(|e| e.to_string())?,
            "nq" => sophia_turtle::parser::nq::parse_str(&doc).for_each_quad(|_| k += 1).map_err(|e| e.to_string())?,
            "turtle" => sophia_turtle::parser::turtle::parse_str(&doc).for_each_triple(|_| k += 1).map_err(|e| e.to_string())?,
            "trig" => sophia_turtle::parser::trig::parse_str(&doc).for_each_quad(|_| k += 1).map_err(|e| e.to_string())?,
            "gnq" => sophia_turtle::parser::gnq::parse_str(&doc).for_each_quad(|_| k += 1).map_err(|e| e.to_string())?,
            "gtrig" => sophia_turtle::parser::gtrig::parse_str(&doc).for_each_quad(|_| k += 1).map_err(|e| e.to_string())?,
            "xml" => sophia_xml::parser::parse_str(&doc).for_each_triple(|_| k += 1).map_err(|e| e.to_string())?,
            "jsonld" => {
                let o: JOpts = JsonLdOptions::new();
                JsonLdParser::new_with_options(o).parse_str(&doc).for_each_quad(|_| k += 1).map_err(|e| e.to_string())?
            }
            _ => unreachable!(),
        }
        Ok(k)
    })
}

macro_rules! mutate_ds {
    ($ty:ty, $m:expr, $n:expr) => {{
        let data = mixed_quads($n);
        match $m {
            "insert_all" => Box::new(move || {
                let mut d = <$ty>::default();
                let k = d.insert_all(data.iter().map(|q| Ok::<_, std::convert::Infallible>(q.clone()))).map_err(|e| e.to_string())?;
                Ok(k as u64)
            }) as Job,
            other => {
                let mut d = <$ty>::default();
                for q in &data {
                    MutableDataset::insert_quad(&mut d, q.clone()).expect("insert");
                }
                let other = other.to_string();
                Box::new(move || {
                    match other.as_str() {
                        "remove_matching" => {
                            d.remove_matching(Any, Any, [ex("nothing"), lit("l0".into())], Any).map_err(|e| e.to_string())?;
                        }
                        "retain_matching" => d.retain_matching(Any, Any, [ex("nothing"), lit("l0".into())], Any).map_err(|e| e.to_string())?,
                        _ => {
                            for q in &data {
                                MutableDataset::remove_quad(&mut d, q.clone()).map_err(|e| e.to_string())?;
                            }
                        }
                    }
                    Ok(d.quads().count() as u64)
                }) as Job
            }
        }
    }};
}
macro_rules! mutate_gr {
    ($ty:ty, $m:expr, $n:expr) => {{
        let data: Vec<T> = mixed_quads($n).into_iter().map(|q| q.0).collect();
        match $m {
            "insert_all" => Box::new(move || {
                let mut d = <$ty>::default();
                let k = d.insert_all(data.iter().map(|q| Ok::<_, std::convert::Infallible>(q.clone()))).map_err(|e| e.to_string())?;
                Ok(k as u64)
            }) as Job,
            other => {
                let mut d = <$ty>::default();
                for q in &data {
                    MutableGraph::insert_triple(&mut d, q.clone()).expect("insert");
                }
                let other = other.to_string();
                Box::new(move || {
                    match other.as_str() {
                        "remove_matching" => {
                            d.remove_matching(Any, Any, [ex("nothing"), lit("l0".into())]).map_err(|e| e.to_string())?;
                        }
                        "retain_matching" => d.retain_matching(Any, Any, [ex("nothing"), lit("l0".into())]).map_err(|e| e.to_string())?,
                        _ => {
                            for q in &data {
                                MutableGraph::remove_triple(&mut d, q.clone()).map_err(|e| e.to_string())?;
                            }
                        }
                    }
                    Ok(d.triples().count() as u64)
                }) as Job
            }
        }
    }};
}

fn c14n_data(kind: &str, n: usize) -> std::collections::HashSet<Q> {
    match kind {
        "ground" => in_graphs(shape_triples("literals", n), false).into_iter().collect(),
        _ => in_graphs(shape_triples("bnodes", n), false).into_iter().collect(),
    }
}

/// builds the data for `op` at size n (outside the measured section) and returns the job
pub fn build(op: &str, n: usize) -> Job {
    let parts: Vec<&str> = op.split(':').collect();
    match parts[0] {
        "skip" => {
            let mask: u8 = parts[2].parse().unwrap();
            let r: usize = parts[3].parse().unwrap();
            match parts[1] {
                "LD" => {
                    let d: LightDataset = varying(n, r).into_iter().map(Ok::<_, std::convert::Infallible>).collect_quads().expect("build");
                    let m = skip_matchers(n, mask, r);
                    Box::new(move || count_quads(&d, m))
                }
                "FD" => {
                    let d: FastDataset = varying(n, r).into_iter().map(Ok::<_, std::convert::Infallible>).collect_quads().expect("build");
                    let m = skip_matchers(n, mask, r);
                    Box::new(move || count_quads(&d, m))
                }
                "LG" => {
                    let d: LightGraph = varying(n, r).into_iter().map(|q| Ok::<_, std::convert::Infallible>(q.0)).collect_triples().expect("build");
                    let m = skip_matchers(n, mask, r).0;
                    Box::new(move || count_triples(&d, m))
                }
                _ => {
                    let d: FastGraph = varying(n, r).into_iter().map(|q| Ok::<_, std::convert::Infallible>(q.0)).collect_triples().expect("build");
                    let m = skip_matchers(n, mask, r).0;
                    Box::new(move || count_triples(&d, m))
                }
            }
        }
        "enum" => {
            let what = parts[2].to_string();
            let data = mixed_quads(n);
            match parts[1] {
                "LD" => {
                    let d: LightDataset = data.into_iter().map(Ok::<_, std::convert::Infallible>).collect_quads().expect("build");
                    Box::new(move || enum_ds!(&d, what.as_str()))
                }
                "FD" => {
                    let d: FastDataset = data.into_iter().map(Ok::<_, std::convert::Infallible>).collect_quads().expect("build");
                    Box::new(move || enum_ds!(&d, what.as_str()))
                }
                "LG" => {
                    let d: LightGraph = data.into_iter().map(|q| Ok::<_, std::convert::Infallible>(q.0)).collect_triples().expect("build");
                    Box::new(move || enum_gr!(&d, what.as_str()))
                }
                _ => {
                    let d: FastGraph = data.into_iter().map(|q| Ok::<_, std::convert::Infallible>(q.0)).collect_triples().expect("build");
                    Box::new(move || enum_gr!(&d, what.as_str()))
                }
            }
        }
        "escape" => {
            let t = [ex("s0"), ex("p0"), lit(escape_text(parts[2], n))];
            match parts[1] {
                "nt" | "turtle" | "turtle-pretty" | "xml" => ser_triples(parts[1], vec![t]),
                s => ser_quads(s, vec![(t, Some(ex("g0")))]),
            }
        }
        "sparql" => sparql_job(parts[1], n),
        "ser" => {
            let (shape, named) = match parts[2].strip_suffix("-in-graphs") {
                Some(s) => (s, true),
                None => (parts[2], false),
            };
            let ts = shape_triples(shape, n);
            match parts[1] {
                "nt" | "turtle" | "turtle-pretty" | "xml" => ser_triples(parts[1], ts),
                s => ser_quads(s, in_graphs(ts, named)),
            }
        }
        "parse" => parse_job(parts[1], parts[2], n),
        "mutate" => match parts[1] {
            "LD" => mutate_ds!(LightDataset, parts[2], n),
            "FD" => mutate_ds!(FastDataset, parts[2], n),
            "VecD" => mutate_ds!(Vec<Q>, parts[2], n),
            "LG" => mutate_gr!(LightGraph, parts[2], n),
            "FG" => mutate_gr!(FastGraph, parts[2], n),
            _ => mutate_gr!(Vec<T>, parts[2], n),
        },
        "c14n" => {
            let d = c14n_data(parts[1], n);
            Box::new(move || {
                let mut out = Vec::<u8>::new();
                sophia_c14n::rdfc10::normalize(&d, &mut out).map_err(|e| e.to_string())?;
                Ok(out.len() as u64)
            })
        }
        "iso" => {
            let d1 = c14n_data(parts[1], n);
            let d2: Vec<Q> = d1.iter().cloned().collect();
            Box::new(move || sophia_isomorphism::isomorphic_datasets(&d1, &d2).map(|x| x as u64).map_err(|e| e.to_string()))
        }
        _ => unreachable!("{op}"),
    }
}

/// runs a job (and drops everything it owns) on a measured 2 MiB thread
fn measured(job: Job) -> (Result<u64, String>, usize, f64) {
    let t0 = Instant::now();
    let (r, used) = stack::measure(STACK, move || job());
    (r, used, t0.elapsed().as_secs_f64())
}

/// builds on a large-stack thread: construction is not the subject
fn build_big(op: &str, n: usize) -> Job {
    let op = op.to_string();
    std::thread::Builder::new().stack_size(1 << 30).spawn(move || build(&op, n)).expect("spawn").join().expect("building the input failed")
}

#[derive(Clone, Debug)]
pub struct Case {
    pub profile: String,
    pub op: String,
    /// 0 = slope (high-water marks at N1 and N2); otherwise run at this size
    pub n: usize,
}

impl Pooled for C16 {
    type Case = Case;
    fn prop(&self) -> &'static str {
        "C16"
    }
    fn profiles(&self) -> Vec<&'static str> {
        vec!["dev", "release"]
    }
    fn case_profile(&self, c: &Case) -> Option<String> {
        Some(c.profile.clone())
    }
    fn enumerate(&self, tier: Tier, f: &mut dyn FnMut(&Case)) {
        for profile in self.profiles() {
            for op in op_names() {
                f(&Case { profile: profile.into(), op: op.clone(), n: 0 });
            }
        }
        let sizes: &[usize] = tier.pick(&[][..], &[20_000, 100_000, 1_000_000][..]);
        for &n in sizes {
            for profile in self.profiles() {
                for op in op_names() {
                    f(&Case { profile: profile.into(), op: op.clone(), n });
                }
            }
        }
    }
    fn case_json(&self, c: &Case) -> Value {
        json!({"profile": c.profile, "op": c.op, "n": c.n})
    }
    fn case_from_json(&self, v: &Value) -> Option<Case> {
        Some(Case { profile: v.get("profile")?.as_str()?.into(), op: v.get("op")?.as_str()?.into(), n: v.get("n")?.as_u64()? as usize })
    }
    fn timeout_s(&self) -> u64 {
        1500
    }
    fn rlimit_as_bytes(&self) -> u64 {
        24 << 30
    }
    fn workers(&self) -> usize {
        14
    }
    fn crash_sig(&self, c: &Case, kind: &str) -> String {
        format!("{kind}:{}:{}", c.profile, c.op)
    }
    fn run(&self, c: &Case, st: &mut Stats) -> Vec<Violation> {
        let mut out = vec![];
        assert_eq!(c.profile, my_profile(), "case routed to the wrong worker binary");
        let case = self.case_json(c);
        if c.n == 0 {
            // warm-up (lazy statics, first allocations), then two measured sizes
            // (the pretty serializers are quadratic in time: half the sizes for them)
            let (n1, n2) = if c.op.contains("pretty") { (N1 / 2, N2 / 2) } else { (N1, N2) };
            let _ = measured(build_big(&c.op, 8));
            let (r1, w1, _) = measured(build_big(&c.op, n1));
            let (r2, w2, _) = measured(build_big(&c.op, n2));
            st.inc("slope_cases");
            st.inc("runs");
            st.inc("runs");
            st.outcome(match (&r1, &r2) {
                (Ok(_), Ok(_)) => "completed",
                _ => "error-value",
            });
            if r2.is_ok() {
                st.inc("nontrivial");
            }
            st.max("max_high_water_bytes", w2 as u64);
            if w2 > w1 + TOLERANCE {
                let per = (w2 - w1) as f64 / (n2 - n1) as f64;
                out.push(Violation::new(
                    format!("stack-grows:{}:{}", c.profile, c.op),
                    format!(
                        "stack high-water mark {w1} bytes at n={n1} but {w2} bytes at n={n2}: about {per:.0} bytes of stack per additional element, i.e. a 2 MiB stack overflows near n={:.0} (results {r1:?} / {r2:?})",
                        STACK as f64 / per
                    ),
                    case,
                ));
            }
        } else {
            // climb a x4 ladder of sizes towards n, predicting each rung's running time from the
            // previous ones; stop (and say so) as soon as the next rung would not fit the budget
            let budget = 90.0;
            let mut prev: Vec<(usize, f64)> = vec![];
            let mut m = 250usize;
            loop {
                let target = m.min(c.n);
                if let Some(&(pm, pt)) = prev.last() {
                    let e = if prev.len() >= 2 {
                        let (qm, qt) = prev[prev.len() - 2];
                        ((pt / qt).ln() / (pm as f64 / qm as f64).ln()).clamp(1.0, 2.5)
                    } else {
                        2.0
                    };
                    let predicted = pt * (target as f64 / pm as f64).powf(e);
                    if predicted > budget {
                        st.inc("big_cases_capped_for_time");
                        st.sample(json!(format!("capped: {} {} n={} (rung {target} predicted {predicted:.0}s, exponent {e:.2}; completed up to n={pm})", c.profile, c.op, c.n)));
                        st.max("max_size_completed_by_a_capped_case", pm as u64);
                        st.inc(&format!("capped:{}:{}", c.profile, c.op.split(':').take(2).collect::<Vec<_>>().join(":")));
                        return out;
                    }
                }
                if target == c.n {
                    break;
                }
                let t0 = Instant::now();
                let _ = measured(build_big(&c.op, target));
                prev.push((target, t0.elapsed().as_secs_f64().max(1e-4)));
                m *= 4;
            }
            let job = build_big(&c.op, c.n);
            // plain 2 MiB thread: an overflow here kills this process, the pool attributes it to the case
            let r = std::thread::Builder::new().stack_size(STACK).spawn(move || job()).expect("spawn").join();
            st.inc("big_cases");
            st.inc("runs");
            match r {
                Ok(Ok(_)) => {
                    st.outcome("completed");
                    st.inc("nontrivial");
                }
                Ok(Err(_)) => st.outcome("error-value"),
                Err(_) => out.push(Violation::new(format!("panic:{}:{}", c.profile, c.op), format!("the operation panicked at n={}", c.n), case)),
            }
        }
        out
    }
}

pub fn run(tier: Tier) -> Report {
    let mut rep = Report::new("C16", tier);
    let o = crate::pool::parent(&C16, tier, None);
    rep.stats.merge(&o.stats);
    // (counters of a worker that died since its last report are lost: the deterministic size of the
    //  enumeration is the number of cases; every one of them was run or attributed to a crash)
    rep.stats.add("states", rep.stats.get("enumerated"));
    rep.stats.add("transitions", rep.stats.get("runs"));
    rep.stats.add("validated", rep.stats.get("runs"));
    rep.violations = o.violations;
    rep.caps = o.caps;
    if rep.stats.get("big_cases_capped_for_time") > 0 {
        rep.caps.push(format!("{} big-size cases were skipped because their predicted running time exceeded 90 s (listed under samples); the slope cases for the same operations ran", rep.stats.get("big_cases_capped_for_time")));
    }
    let nops = op_names().len();
    rep.rule = format!(
        "{nops} operations (pattern queries in Light/Fast datasets and graphs for every combination of constant positions x position of a non-constant matcher rejecting all rows but the last; term enumerations; one literal of n escaped characters in 8 serializers x 5 escape kinds; 15 SPARQL forms incl. GRAPH ?g over n named graphs, OFFSET, FILTER, joins; serialising n statements in 6 shapes incl. one RDF list of n items, in and out of named graphs, in 8 serializers; parsing n statements / one collection of n items / n-ary predicate and object lists in 8 parsers; insert_all/remove_matching/retain_matching/remove on 6 stores; canonicalisation and isomorphism of n statements) x 2 build profiles of the harness and of /repo (dev: opt-level 0; release); slope mode: stack high-water marks on a painted 2 MiB thread stack at n={N1} and n={N2} (half of each for the pretty serializers, which are quadratic in time) must differ by at most {TOLERANCE} bytes; big mode: the operation runs at n={} on a 2 MiB thread in a child process; non-trivial = the run at the larger size completed with a value (not an error)",
        match tier {
            Tier::Quick => "(not run in this tier)",
            Tier::Thorough => "20 000, 100 000 and 1 000 000 (a case climbs a x4 size ladder and is skipped, and counted under big_cases_capped_for_time, when the next rung's predicted time exceeds 90 s)",
        }
    );
    rep.bounds = json!({"operations": nops, "profiles": ["dev", "release"], "slope_sizes": [N1, N2], "tolerance_bytes": TOLERANCE, "big_sizes": tier.pick(vec![], vec![20_000, 100_000, 1_000_000]), "stack_bytes": STACK});
    rep.assumptions = vec![
        "stack depth of an operation is monotone in the size dimension, so the largest rung of the ladder decides the smaller ones".into(),
        "inputs are built on a separate large-stack thread: only the operation under test (and the drop of what it owns) runs on the 2 MiB stack".into(),
    ];
    rep
}

pub fn replay(case: &Value) -> Vec<Violation> {
    crate::pool::parent(&C16, Tier::Quick, Some(case)).violations
}
