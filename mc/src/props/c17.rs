//! C17 — relativising an IRI against a base is the inverse of resolving (E4: all ordered pairs
//! of a generated IRI set x all parent-step limits).
use crate::fw::*;
use crate::props::c09::gen_iris;
use rayon::prelude::*;
use serde_json::{Value, json};
use sophia_iri::relativize::Relativizer;
use sophia_iri::resolve::BaseIri;
use sophia_iri::{Iri, IriRef};
use std::collections::BTreeSet;

const PARENTS: [u8; 5] = [0, 1, 2, 3, 255];

fn leading_parent_steps(r: &str) -> usize {
    let mut n = 0;
    let mut rest = r;
    loop {
        if let Some(x) = rest.strip_prefix("../") {
            n += 1;
            rest = x;
        } else if rest == ".." || rest.starts_with("..?") || rest.starts_with("..#") {
            return n + 1;
        } else {
            return n;
        }
    }
}

/// split off "?query#fragment"
fn path_part(s: &str) -> &str {
    let end = s.find(['?', '#']).unwrap_or(s.len());
    &s[..end]
}

fn toolkit_resolve(base: &str, r: &str) -> Result<String, String> {
    match guarded(|| BaseIri::new(base).map_err(|e| e.to_string()).and_then(|b| b.resolve(r).map(|i| i.as_str().to_string()).map_err(|e| e.to_string()))) {
        Ok(x) => x,
        Err(p) => Err(format!("panic: {p}")),
    }
}

fn check_pair(base: &str, iri: &str, parents: u8, st: &mut Stats) -> Option<Violation> {
    let case = json!({"base": base, "iri": iri, "parents": parents});
    let res = guarded(|| {
        let b = BaseIri::new(base.to_string()).expect("base");
        let rel = Relativizer::new(b, parents);
        rel.relativize(Iri::new_unchecked(iri)).map(|r| r.as_str().to_string())
    });
    st.inc("validated");
    match res {
        Err(p) => Some(Violation::new("panic", format!("relativize({iri:?}) against {base:?} (parents={parents}) panicked: {p}"), case)),
        Ok(Some(r)) => {
            st.inc("some");
            if IriRef::new(r.as_str()).is_err() {
                return Some(Violation::new("invalid-reference", format!("{iri:?} against {base:?} (parents={parents}) gives {r:?}, which IriRef::new rejects"), case));
            }
            match toolkit_resolve(base, &r) {
                Ok(back) if back == iri => {}
                Ok(back) => {
                    return Some(Violation::new("does-not-resolve-back", format!("{iri:?} against {base:?} (parents={parents}) gives {r:?}, which resolves to {back:?}"), case));
                }
                Err(e) => {
                    return Some(Violation::new("reference-cannot-be-resolved", format!("{iri:?} against {base:?} (parents={parents}) gives {r:?}, which the resolver refuses: {e}"), case));
                }
            }
            let steps = leading_parent_steps(&r);
            if steps > parents as usize {
                return Some(Violation::new("too-many-parent-steps", format!("{iri:?} against {base:?}: {r:?} uses {steps} parent steps, limit {parents}"), case));
            }
            if steps > 0 {
                st.inc("nontrivial");
                st.outcome(&format!("some-with-{steps}-parent-steps"));
            } else {
                st.outcome("some-without-parent-steps");
                if r != iri {
                    st.inc("nontrivial");
                }
            }
            None
        }
        Ok(None) => {
            st.inc("none");
            st.outcome("none");
            // must-serve pairs: iri equal to the base, or differing from it only in query and/or fragment
            if path_part(base) == path_part(iri) {
                // the property promises a reference here -- provided one exists at all: try the
                // obvious *relative* candidates and complain only if one of them works
                let rest = &iri[path_part(iri).len()..];
                let frag = iri.find('#').map(|i| &iri[i..]).unwrap_or("");
                let last_seg = path_part(iri).rsplit('/').next().unwrap_or("");
                let cands = [rest.to_string(), frag.to_string(), format!("{last_seg}{rest}"), format!("./{last_seg}{rest}"), String::new()];
                for c in cands {
                    if sophia_iri::is_relative_iri_ref(c.as_str()) && toolkit_resolve(base, &c).as_deref() == Ok(iri) {
                        return Some(Violation::new(
                            "none-for-same-path-pair",
                            format!("{iri:?} against {base:?} (parents={parents}) returns None although they differ only in query/fragment and {c:?} resolves to it"),
                            case,
                        ));
                    }
                }
                st.inc("same_path_pairs_without_any_reference");
            }
            None
        }
    }
}

pub fn run(tier: Tier) -> Report {
    let mut rep = Report::new("C17", tier);
    let nseg = tier.pick(2, 3);
    let mut pool = gen_iris(nseg, true);
    // queries and fragments containing ':' (a ':' before any '/' matters to relative references)
    let plain: Vec<String> = pool.iter().filter(|i| !i.contains('?') && !i.contains('#')).cloned().collect();
    for i in plain {
        pool.push(format!("{i}?u:v"));
        pool.push(format!("{i}#x:y"));
        pool.push(format!("{i}?u:v#x:y"));
    }
    pool.sort();
    let all: Vec<String> = pool.into_iter().filter(|i| Iri::new(i.as_str()).is_ok() && guarded(|| BaseIri::new(i.as_str()).is_ok()) == Ok(true)).collect();
    // quick: bases = a complete 1/8 slice (by seed) of the IRI set, targets = all; thorough (3 segments): bases 1/16
    let stride = tier.pick(6, 8) as u64;
    let k = rep.seed % stride;
    let bases: Vec<&String> = all.iter().enumerate().filter(|(i, _)| (*i as u64) % stride == k).map(|(_, b)| b).collect();
    rep.stats.add("bases", bases.len() as u64);
    rep.stats.add("iris", all.len() as u64);
    let results: Vec<(Vec<Violation>, Stats)> = bases
        .par_iter()
        .map(|base| {
            let mut st = Stats::default();
            let mut out: Vec<Violation> = vec![];
            let mut seen: BTreeSet<String> = BTreeSet::new();
            for iri in &all {
                for p in PARENTS {
                    st.inc("states");
                    if let Some(v) = check_pair(base, iri, p, &mut st) {
                        if seen.insert(v.sig.clone()) || out.len() < 5 {
                            out.push(v);
                        } else {
                            st.inc("violations_not_listed");
                        }
                    }
                }
                st.inc("transitions");
            }
            (out, st)
        })
        .collect();
    for (vs, st) in results {
        rep.stats.merge(&st);
        rep.violations.extend(vs);
    }
    rep.stats.sample(json!({"base": bases.get(bases.len() / 2), "iri": all.get(all.len() / 3), "parents": 2}));
    rep.rule = format!(
        "all ordered pairs (base, iri) with base in a complete 1/{stride} slice of, and iri in, the set of all valid IRIs built from scheme {{x,http}} x authority {{none,//a,//a:1,//}} x paths of <= {nseg} segments over ['',a,b,.,..,a:b,é,%2e] (rooted/rootless/empty) x queries ['', ?, ?q/x?, ?u:v] x fragments ['', #, #f/?, #x:y], x parents in {PARENTS:?}; every returned reference is validated, resolved back with the toolkit's resolver and its leading ../ steps counted; non-trivial = a reference different from the IRI itself was returned"
    );
    rep.bounds = json!({"segments": nseg, "parents": PARENTS, "base_slice": format!("1/{stride}")});
    rep.states_key = "states";
    rep.transitions_key = "transitions";
    rep.assumptions = vec!["the inverse is taken with respect to the toolkit's own resolver (BaseIri::resolve); deviations of that resolver from RFC 3986 are reported under C09".into(), "None is accepted whenever the property does not promise a reference, and for same-path pairs for which no candidate reference resolves back".into()];
    rep
}

pub fn replay(case: &Value) -> Vec<Violation> {
    let mut st = Stats::default();
    check_pair(case["base"].as_str().unwrap_or(""), case["iri"].as_str().unwrap_or(""), case["parents"].as_u64().unwrap_or(0) as u8, &mut st).into_iter().collect()
}
