//! C03 — N-Triples / N-Quads serialisation round-trips every dataset exactly (E4 + E2, pooled).
use crate::fw::*;
use crate::model::refnq;
use crate::model::terms::*;
use crate::pool::Pooled;
use serde_json::{Value, json};
use sophia_api::prelude::*;
use sophia_api::serializer::{QuadSerializer, Stringifier, TripleSerializer};
use sophia_api::source::IntoSource;
use sophia_api::term::{BnodeId, LanguageTag, SimpleTerm};
use sophia_turtle::serializer::nq::NqSerializer;
use sophia_turtle::serializer::nt::NtSerializer;

pub struct C03;

/// same quads, in the same order, code point for code point -- except for the case of language
/// tags, which RDF 1.1 allows to be normalised to lower case (the term is the same)
fn same_quads(a: &[AQuad], b: &[AQuad]) -> bool {
    a.len() == b.len() && a.iter().zip(b).all(|(x, y)| quad_key(x) == quad_key(y))
}

#[derive(Clone, Debug)]
pub struct Case {
    /// "nt" | "nq" | "gnq"
    pub syntax: &'static str,
    pub quads: Vec<AQuad>,
}

const LEX: [&str; 22] = ["a", "u", "\"", "\\", "\n", "\r", "\t", "\0", "\u{8}", "\u{7f}", " ", ".", "'", "<", ">", "#", "@", "^", "é", "\u{301}", "\u{10000}", "\u{fffe}"];
const LABEL: [&str; 10] = ["a", "1", ".", "-", "_", "\u{b7}", "é", "\u{300}", "\u{203f}", ":"];
const TAG: [&str; 5] = ["a", "A", "x", "1", "-"];

fn s() -> ATerm {
    ATerm::iri("http://ex.org/s")
}
fn p() -> ATerm {
    ATerm::iri("http://ex.org/p")
}
fn o() -> ATerm {
    ATerm::iri("http://ex.org/o")
}
fn g() -> ATerm {
    ATerm::iri("http://ex.org/g")
}

fn placements(t: &ATerm, f: &mut dyn FnMut(Case)) {
    // every position where the kind of `t` is legal, in triples (nt), quads (nq) and inside quoted triples
    let can_subject = matches!(t, ATerm::Iri(_) | ATerm::Bnode(_) | ATerm::Triple(_));
    let can_graph = matches!(t, ATerm::Iri(_) | ATerm::Bnode(_));
    let can_pred = matches!(t, ATerm::Iri(_));
    // object, before the dot
    f(Case { syntax: "nt", quads: vec![([s(), p(), t.clone()], None)] });
    f(Case { syntax: "nq", quads: vec![([s(), p(), t.clone()], None)] });
    f(Case { syntax: "nq", quads: vec![([s(), p(), t.clone()], Some(g()))] });
    if can_subject {
        f(Case { syntax: "nt", quads: vec![([t.clone(), p(), o()], None)] });
        f(Case { syntax: "nq", quads: vec![([t.clone(), p(), t.clone()], Some(g()))] });
    }
    if can_pred {
        f(Case { syntax: "nt", quads: vec![([s(), t.clone(), o()], None)] });
        // datatype position
        if let ATerm::Iri(i) = t {
            f(Case { syntax: "nt", quads: vec![([s(), p(), ATerm::typed("x", i)], None)] });
        }
    }
    if can_graph {
        f(Case { syntax: "nq", quads: vec![([s(), p(), o()], Some(t.clone()))] });
        f(Case { syntax: "nq", quads: vec![([s(), p(), ATerm::lit("x")], Some(t.clone()))] });
    }
    if !matches!(t, ATerm::Triple(_)) {
        // inside << >> at depth 1 and 2, as subject and as object of the asserted triple
        let q1 = ATerm::triple(s(), p(), t.clone());
        f(Case { syntax: "nt", quads: vec![([q1.clone(), p(), o()], None)] });
        f(Case { syntax: "nq", quads: vec![([s(), p(), q1.clone()], Some(g()))] });
        let q2 = ATerm::triple(q1.clone(), p(), q1.clone());
        f(Case { syntax: "nt", quads: vec![([s(), p(), q2.clone()], None)] });
        if can_subject {
            let q3 = ATerm::triple(t.clone(), p(), ATerm::triple(t.clone(), p(), t.clone()));
            f(Case { syntax: "nq", quads: vec![([q3, p(), t.clone()], None)] });
        }
    }
    // two statements differing in one component only (to catch merging / line handling)
    f(Case { syntax: "nq", quads: vec![([s(), p(), t.clone()], None), ([s(), p(), t.clone()], Some(g()))] });
    f(Case { syntax: "nt", quads: vec![([s(), p(), t.clone()], None), ([s(), p(), o()], None)] });
    f(Case { syntax: "nt", quads: vec![([s(), p(), o()], None), ([s(), p(), t.clone()], None)] });
}

/// well-formedness according to BCP47 (RFC 5646 section 2.1), regular tags and private use
pub fn is_bcp47(tag: &str) -> bool {
    let subs: Vec<&str> = tag.split('-').collect();
    let alpha = |s: &str| !s.is_empty() && s.chars().all(|c| c.is_ascii_alphabetic());
    let alnum = |s: &str| !s.is_empty() && s.chars().all(|c| c.is_ascii_alphanumeric());
    let digit = |s: &str| !s.is_empty() && s.chars().all(|c| c.is_ascii_digit());
    if subs.iter().any(|s| s.is_empty() || s.len() > 8 || !alnum(s)) {
        return false;
    }
    let mut i = 0;
    let privateuse = |i: usize| subs[i].eq_ignore_ascii_case("x") && subs.len() > i + 1;
    if privateuse(0) {
        return true;
    }
    // language
    let l = subs[0];
    if !alpha(l) || l.len() < 2 {
        return false;
    }
    i += 1;
    if l.len() <= 3 {
        // up to 3 extlang
        let mut n = 0;
        while i < subs.len() && n < 3 && subs[i].len() == 3 && alpha(subs[i]) {
            i += 1;
            n += 1;
        }
    }
    if i < subs.len() && subs[i].len() == 4 && alpha(subs[i]) {
        i += 1; // script
    }
    if i < subs.len() && ((subs[i].len() == 2 && alpha(subs[i])) || (subs[i].len() == 3 && digit(subs[i]))) {
        i += 1; // region
    }
    while i < subs.len() && ((subs[i].len() >= 5) || (subs[i].len() == 4 && subs[i].chars().next().unwrap().is_ascii_digit())) {
        i += 1; // variant
    }
    while i < subs.len() && subs[i].len() == 1 && !subs[i].eq_ignore_ascii_case("x") {
        // extension: singleton 1*("-" 2*8alphanum)
        i += 1;
        let mut n = 0;
        while i < subs.len() && subs[i].len() >= 2 {
            i += 1;
            n += 1;
        }
        if n == 0 {
            return false;
        }
    }
    if i < subs.len() && subs[i].eq_ignore_ascii_case("x") {
        return subs.len() > i + 1;
    }
    i == subs.len()
}

fn iris() -> Vec<String> {
    let mut v: Vec<String> = crate::props::c09::gen_iris(1, true).into_iter().filter(|i| sophia_iri::Iri::new(i.as_str()).is_ok()).collect();
    v.extend(["http://ex.org/é", "http://ex.org/\u{10000}?\u{e000}#\u{a0}", "http://[::1]/", "http://[v1.a]:80/%C3%A9?q#f", "urn:x:y", "http://ex.org/a'b(c)d*e,f;g=h"].iter().map(|s| s.to_string()));
    v.retain(|i| sophia_iri::Iri::new(i.as_str()).is_ok());
    v
}

impl Pooled for C03 {
    type Case = Case;
    fn prop(&self) -> &'static str {
        "C03"
    }
    fn enumerate(&self, tier: Tier, f: &mut dyn FnMut(&Case)) {
        let mut emit = |c: Case| f(&c);
        // literals: every lexical form, in the three literal kinds
        let maxlex = tier.pick(3, 4);
        words_upto(LEX.len(), maxlex, &mut |w| {
            let lex: String = w.iter().map(|i| LEX[*i]).collect();
            for t in [ATerm::lit(&lex), ATerm::lang(&lex, "en-US"), ATerm::typed(&lex, "http://ex.org/dt")] {
                placements(&t, &mut emit);
            }
        });
        // blank node labels
        words_upto(LABEL.len(), tier.pick(4, 5), &mut |w| {
            let l: String = w.iter().map(|i| LABEL[*i]).collect();
            if BnodeId::new(l.as_str()).is_ok() {
                placements(&ATerm::b(&l), &mut emit);
            }
        });
        // language tags (valid for the toolkit and with an alphabetic first subtag, as BCP47 requires)
        words_upto(TAG.len(), tier.pick(5, 7), &mut |w| {
            let l: String = w.iter().map(|i| TAG[*i]).collect();
            if LanguageTag::new(l.as_str()).is_ok() && is_bcp47(&l) {
                placements(&ATerm::lang("x", &l), &mut emit);
            }
        });
        for i in iris() {
            placements(&ATerm::iri(&i), &mut emit);
        }
    }
    fn case_json(&self, c: &Case) -> Value {
        json!({"syntax": c.syntax, "quads": quads_nq(&c.quads)})
    }
    fn case_from_json(&self, v: &Value) -> Option<Case> {
        let syntax = match v["syntax"].as_str()? {
            "nt" => "nt",
            "nq" => "nq",
            _ => "gnq",
        };
        let mut quads = vec![];
        for q in v["quads"].as_array()? {
            quads.push(refnq::parse_quad(q.as_str()?).ok()?);
        }
        Some(Case { syntax, quads })
    }
    fn run(&self, c: &Case, st: &mut Stats) -> Vec<Violation> {
        let mut out = vec![];
        let case = self.case_json(c);
        let squads: Vec<SQuad> = c.quads.iter().map(to_squad).collect();
        // serialise
        let text: Result<Result<String, String>, String> = guarded(|| {
            if c.syntax == "nt" {
                let triples: Vec<[SimpleTerm<'static>; 3]> = squads.iter().map(|q| q.0.clone()).collect();
                let mut ser = NtSerializer::new_stringifier();
                ser.serialize_triples(triples.into_iter().into_source()).map_err(|e| e.to_string())?;
                Ok(ser.to_string())
            } else {
                let mut ser = NqSerializer::new_stringifier();
                ser.serialize_quads(squads.clone().into_iter().into_source()).map_err(|e| e.to_string())?;
                Ok(ser.to_string())
            }
        });
        st.inc("validated");
        let text = match text {
            Err(p) => return vec![Violation::new(format!("{}:serializer-panic", c.syntax), p, case)],
            Ok(Err(e)) => return vec![Violation::new(format!("{}:serializer-error", c.syntax), e, case)],
            Ok(Ok(t)) => t,
        };
        // one statement per line
        let newlines = text.matches('\n').count();
        if newlines != c.quads.len() || !text.ends_with('\n') && !c.quads.is_empty() {
            out.push(Violation::new(format!("{}:not-one-statement-per-line", c.syntax), format!("{} statements serialised as {:?}", c.quads.len(), text), case.clone()));
        }
        // parse back with the toolkit's parser
        let back: Result<Result<Vec<AQuad>, String>, String> = guarded(|| {
            let mut v = vec![];
            match c.syntax {
                "nt" => sophia_turtle::parser::nt::parse_str(&text).for_each_triple(|t| v.push((from_triple(&t), None))).map_err(|e| e.to_string())?,
                "nq" => sophia_turtle::parser::nq::parse_str(&text).for_each_quad(|q| v.push(from_quad(&q))).map_err(|e| e.to_string())?,
                _ => sophia_turtle::parser::gnq::parse_str(&text).for_each_quad(|q| v.push(from_quad(&q))).map_err(|e| e.to_string())?,
            }
            Ok(v)
        });
        let kind_sig = |q: &AQuad| -> &'static str {
            fn lit_in(t: &ATerm) -> bool {
                match t {
                    ATerm::Lit(..) => true,
                    ATerm::Triple(tr) => tr.iter().any(lit_in),
                    _ => false,
                }
            }
            if q.0.iter().chain(q.1.iter()).any(|t| matches!(t, ATerm::Var(_))) {
                "variable"
            } else if q.0.iter().any(lit_in) {
                "literal"
            } else if q.0.iter().chain(q.1.iter()).any(|t| matches!(t, ATerm::Bnode(_))) {
                "bnode"
            } else {
                "iri"
            }
        };
        let ks = c.quads.last().map(kind_sig).unwrap_or("empty");
        match back {
            Err(p) => out.push(Violation::new(format!("{}:parser-panic:{ks}", c.syntax), format!("parsing {text:?}: {p}"), case.clone())),
            Ok(Err(e)) => out.push(Violation::new(format!("{}:own-output-rejected:{ks}", c.syntax), format!("{text:?} -> {e}"), case.clone())),
            Ok(Ok(v)) => {
                // exact equality, code point for code point (language tags included), same multiset in the same order
                if !same_quads(&v, &c.quads) {
                    out.push(Violation::new(format!("{}:round-trip-differs:{ks}", c.syntax), format!("{:?} -> {text:?} -> {:?}", quads_nq(&c.quads), quads_nq(&v)), case.clone()));
                } else {
                    st.inc("round_trips_ok");
                }
            }
        }
        // the generalized parser must read strict documents identically
        if c.syntax == "nq" {
            let g: Result<Result<Vec<AQuad>, String>, String> = guarded(|| {
                let mut v = vec![];
                sophia_turtle::parser::gnq::parse_str(&text).for_each_quad(|q| v.push(from_quad(&q))).map_err(|e| e.to_string())?;
                Ok(v)
            });
            st.inc("validated");
            if !matches!(&g, Ok(Ok(v)) if same_quads(v, &c.quads)) {
                out.push(Violation::new(format!("gnq-reads-nq-differently:{ks}"), format!("{text:?} -> {:?}", g.map(|r| r.map(|v| quads_nq(&v)))), case.clone()));
            }
        }
        // the independent reader of the W3C grammar
        match refnq::parse_doc(&text, c.syntax == "gnq") {
            Err(e) => out.push(Violation::new(format!("{}:w3c-grammar-rejects-output:{ks}", c.syntax), format!("{text:?}: {e}"), case.clone())),
            Ok(v) => {
                if !same_quads(&v, &c.quads) {
                    out.push(Violation::new(format!("{}:w3c-reader-sees-other-quads:{ks}", c.syntax), format!("{text:?} read as {:?}", quads_nq(&v)), case.clone()));
                }
            }
        }
        if text.bytes().any(|b| b == b'\\') || text.chars().any(|ch| (ch as u32) > 0x7f) || c.quads.len() > 1 {
            st.inc("nontrivial");
        }
        st.outcome(&format!("{}:{ks}", c.syntax));
        if c.quads.len() == 1 && text.len() > 60 {
            st.sample(json!({"syntax": c.syntax, "text": text}));
        }
        out
    }
    fn timeout_s(&self) -> u64 {
        5
    }
}

pub fn run(tier: Tier) -> Report {
    let mut rep = Report::new("C03", tier);
    let o = crate::pool::parent(&C03, tier, None);
    rep.stats.merge(&o.stats);
    rep.stats.add("states", rep.stats.get("cases_run"));
    rep.stats.add("transitions", rep.stats.get("validated") * 3);
    rep.violations = o.violations;
    rep.caps = o.caps;
    rep.rule = format!(
        "every lexical form of length <= {} over a 22-symbol alphabet (quotes, backslash, LF, CR, TAB, NUL, BS, DEL, space, '.', markup characters, é, a combining mark, a non-BMP character, U+FFFE) in plain / language-tagged / datatyped literals; every blank node label of length <= {} over [a 1 . - _ U+B7 é U+0300 U+203F :] accepted by BnodeId::new; every language tag of length <= {} over [a A x 1 -] that is well-formed BCP47 and accepted by LanguageTag::new; a set of absolute IRIs (all authority/path/query/fragment shapes, IPv6, non-ASCII, sub-delims); variables; each value placed in every position where its kind is legal (subject, predicate, object, datatype, graph name, inside << >> at depth 1-2) in N-Triples, N-Quads and generalized N-Quads documents of 1 and 2 statements; oracle: parse(serialize(d)) == d exactly, one line per statement, and an independent reader of the W3C grammar reads the same quads; non-trivial = output contains an escape or a non-ASCII character or several statements",
        tier.pick(3, 4),
        tier.pick(4, 5),
        tier.pick(5, 7)
    );
    rep.bounds = json!({"lexical_length": tier.pick(3, 4), "label_length": tier.pick(4, 5), "tag_length": tier.pick(5, 7)});
    rep.assumptions = vec!["the independent reader (model/refnq.rs) implements the RDF 1.1 N-Quads EBNF plus the RDF-star quotedTriple production".into()];
    rep
}

pub fn replay(case: &Value) -> Vec<Violation> {
    crate::pool::parent(&C03, Tier::Quick, Some(case)).violations
}
