//! C13 — SPARQL evaluation returns exactly the algebra's solutions or 'not implemented' (E2 x E4).
use crate::fw::*;
use crate::model::refnq;
use crate::model::refsparql::*;
use crate::model::terms::*;
use rayon::prelude::*;
use serde_json::{Value, json};
use sophia_api::prelude::*;
use sophia_api::quad::Spog;
use sophia_api::sparql::{SparqlDataset, SparqlResult};
use sophia_api::term::SimpleTerm;
use sophia_sparql::{SparqlWrapper, SparqlWrapperError};
use std::collections::BTreeMap;

type ST = SimpleTerm<'static>;

fn ex(l: &str) -> ATerm {
    ATerm::iri(&format!("http://ex.org/{l}"))
}
fn int(i: i64) -> ATerm {
    ATerm::typed(&i.to_string(), &format!("{XSD}integer"))
}
fn tru() -> ATerm {
    ATerm::typed("true", &format!("{XSD}boolean"))
}
fn v(n: &str) -> TP {
    TP::Var(n.into())
}
fn c(t: ATerm) -> TP {
    TP::Const(t)
}

pub fn quad_universe() -> Vec<AQuad> {
    let subjects = [ex("a"), ex("b"), ATerm::b("x")];
    let preds = [ex("p"), ex("q")];
    let objects = [ex("a"), ex("b"), ATerm::b("x"), int(1), ATerm::lit("1"), ATerm::lang("a", "en"), tru()];
    let graphs = [None, Some(ex("g")), Some(ex("h"))];
    let mut u = vec![];
    for g in &graphs {
        for s in &subjects {
            for p in &preds {
                for o in &objects {
                    u.push(([s.clone(), p.clone(), o.clone()], g.clone()));
                }
            }
        }
    }
    // subject = predicate, predicate = object (for repeated variables across positions)
    u.push(([ex("p"), ex("p"), ex("a")], None));
    u.push(([ex("a"), ex("p"), ex("p")], Some(ex("g"))));
    u.push(([ex("q"), ex("q"), ex("q")], None));
    u.push(([ATerm::triple(ex("p"), ex("p"), ex("b")), ex("q"), ex("a")], None));
    u.push(([ATerm::triple(ex("p"), ex("q"), ex("b")), ex("p"), ex("a")], None));
    // quoted triples
    u.push(([ATerm::triple(ex("a"), ex("p"), ex("b")), ex("q"), ex("a")], None));
    u.push(([ex("a"), ex("q"), ATerm::triple(ex("a"), ex("p"), int(1))], Some(ex("g"))));
    u
}
fn core_quads() -> Vec<AQuad> {
    vec![
        ([ex("a"), ex("p"), ex("b")], None),
        ([ex("a"), ex("p"), int(1)], None),
        ([ex("b"), ex("p"), ex("a")], None),
        ([ATerm::b("x"), ex("p"), ATerm::b("x")], None),
        ([ex("a"), ex("q"), ATerm::lang("a", "en")], None),
        ([ex("a"), ex("p"), ex("b")], Some(ex("g"))),
        ([ex("a"), ex("p"), int(1)], Some(ex("g"))),
        ([ex("b"), ex("q"), ATerm::lit("1")], Some(ex("g"))),
        ([ex("a"), ex("p"), ex("b")], Some(ex("h"))),
        ([ex("b"), ex("p"), tru()], Some(ex("h"))),
        ([ATerm::triple(ex("a"), ex("p"), ex("b")), ex("q"), ex("a")], None),
        ([ATerm::b("x"), ex("q"), ex("a")], Some(ex("h"))),
        ([ex("p"), ex("p"), ex("a")], None),
        ([ex("a"), ex("p"), ex("p")], None),
    ]
}

pub fn datasets(tier: Tier) -> Vec<Vec<AQuad>> {
    let mut v: Vec<Vec<AQuad>> = vec![vec![]];
    let u = quad_universe();
    // every single quad of the universe
    for q in &u {
        v.push(vec![q.clone()]);
    }
    // all subsets of size 2..k of the core
    let core = core_quads();
    subsets_upto(core.len(), tier.pick(2, 4), &mut |idx| {
        if idx.len() >= 2 {
            v.push(idx.iter().map(|i| core[*i].clone()).collect());
        }
    });
    v.push(core);
    v
}

fn tps() -> Vec<[TP; 3]> {
    let subj = [v("x"), v("y"), TP::Bnode("b".into()), c(ex("a")), TP::Quoted(Box::new([v("x"), c(ex("p")), v("y")]))];
    let pred = [c(ex("p")), c(ex("q")), v("p"), v("x"), v("y")];
    let obj = [v("x"), v("y"), v("z"), c(ex("a")), c(int(1)), c(ATerm::lang("a", "en")), TP::Bnode("b".into()), c(ex("b"))];
    let mut out = vec![];
    for s in &subj {
        for p in &pred {
            for o in &obj {
                out.push([s.clone(), p.clone(), o.clone()]);
            }
        }
    }
    out
}
fn core_tps() -> Vec<[TP; 3]> {
    vec![
        [v("x"), c(ex("p")), v("y")],
        [v("y"), c(ex("p")), v("z")],
        [v("x"), v("p"), v("x")],
        [c(ex("a")), c(ex("p")), v("y")],
        [v("x"), c(ex("q")), v("z")],
        [TP::Bnode("b".into()), c(ex("p")), v("y")],
        [v("x"), c(ex("p")), TP::Bnode("b".into())],
        [v("x"), c(ex("p")), c(int(1))],
        [TP::Quoted(Box::new([v("x"), c(ex("p")), v("y")])), c(ex("q")), v("z")],
        [v("y"), v("p"), v("x")],
        [v("x"), v("x"), v("y")],
        [v("x"), v("y"), v("y")],
        [TP::Quoted(Box::new([v("x"), v("x"), v("y")])), c(ex("q")), v("z")],
        [TP::Quoted(Box::new([v("x"), v("y"), c(ex("b"))])), v("x"), v("z")],
    ]
}
fn core_bgps(n: usize) -> Vec<Pat> {
    let t = core_tps();
    let mut v = vec![Pat::Bgp(vec![]), Pat::Bgp(vec![t[0].clone()]), Pat::Bgp(vec![t[0].clone(), t[1].clone()]), Pat::Bgp(vec![t[4].clone()]), Pat::Bgp(vec![t[3].clone()]), Pat::Bgp(vec![t[2].clone()]), Pat::Bgp(vec![t[5].clone(), t[6].clone()]), Pat::Bgp(vec![t[7].clone()]), Pat::Bgp(vec![t[8].clone()]), Pat::Bgp(vec![t[0].clone(), t[9].clone()]), Pat::Bgp(vec![t[0].clone(), t[4].clone()]), Pat::Bgp(vec![t[9].clone()])];
    v.truncate(n);
    v
}

pub fn exprs(tier: Tier) -> Vec<Expr> {
    use Expr::*;
    let bx = |e: Expr| Box::new(e);
    let atoms = [Var("x".into()), Var("y".into()), Var("u".into()), Const(int(1)), Const(ATerm::lit("1")), Const(ATerm::lang("a", "en")), Const(tru()), Const(ex("a"))];
    let mut v: Vec<Expr> = vec![];
    for a in &atoms[..3] {
        for b2 in &atoms {
            v.push(Eq(bx(a.clone()), bx(b2.clone())));
            v.push(Neq(bx(a.clone()), bx(b2.clone())));
            v.push(Lt(bx(a.clone()), bx(b2.clone())));
            v.push(SameTerm(bx(a.clone()), bx(b2.clone())));
        }
        v.push(IsIri(bx(a.clone())));
        v.push(IsBlank(bx(a.clone())));
        v.push(IsLiteral(bx(a.clone())));
        v.push(Str(bx(a.clone())));
        v.push(Lang(bx(a.clone())));
        v.push(Datatype(bx(a.clone())));
        v.push(Add(bx(a.clone()), bx(Const(int(1)))));
        v.push(Not(bx(a.clone())));
        v.push(a.clone());
    }
    v.push(Bound("x".into()));
    v.push(Bound("u".into()));
    v.push(Add(bx(Var("x".into())), bx(Var("y".into()))));
    v.push(Const(tru()));
    v.push(Const(int(0)));
    // depth 2: three-valued logic over true / false / error operands
    let t = Const(tru());
    let f = Eq(bx(Const(int(1))), bx(Const(int(2))));
    let err = Eq(bx(Var("u".into())), bx(Const(int(1))));
    let dep = Eq(bx(Var("y".into())), bx(Const(int(1))));
    let lit_err = Lt(bx(Var("y".into())), bx(Const(ex("a"))));
    let ops = [t.clone(), f.clone(), err.clone(), dep.clone(), lit_err.clone(), IsIri(bx(Var("y".into()))), Bound("u".into())];
    for a in &ops {
        for b2 in &ops {
            v.push(Or(bx(a.clone()), bx(b2.clone())));
            v.push(And(bx(a.clone()), bx(b2.clone())));
        }
        v.push(Not(bx(a.clone())));
        v.push(Not(bx(Or(bx(a.clone()), bx(err.clone())))));
        v.push(Not(bx(And(bx(a.clone()), bx(err.clone())))));
    }
    v.push(Eq(bx(Str(bx(Var("y".into())))), bx(Const(ATerm::lit("1")))));
    v.push(Eq(bx(Lang(bx(Var("z".into())))), bx(Const(ATerm::lit("en")))));
    v.push(Eq(bx(Datatype(bx(Var("y".into())))), bx(Const(ATerm::iri(&format!("{XSD}integer"))))));
    v.push(Lt(bx(Add(bx(Var("y".into())), bx(Const(int(1))))), bx(Const(int(3)))));
    v.push(IsLiteral(bx(Str(bx(Var("x".into()))))));
    // numeric type promotion (integer -> float -> double), with operands on either side
    let flt = |l: &str| Const(ATerm::typed(l, &format!("{XSD}float")));
    let dbl = |l: &str| Const(ATerm::typed(l, &format!("{XSD}double")));
    for (a, c2) in [(flt("0.1"), dbl("0.1e0")), (flt("16777216"), dbl("16777217e0")), (flt("1.5"), dbl("1.5e0")), (Var("y".into()), dbl("1.0e0")), (Var("y".into()), flt("1.5")), (Const(int(16777217)), flt("16777216"))] {
        for (l, r) in [(a.clone(), c2.clone()), (c2.clone(), a.clone())] {
            v.push(Eq(bx(l.clone()), bx(r.clone())));
            v.push(Neq(bx(l.clone()), bx(r.clone())));
            v.push(Lt(bx(l.clone()), bx(r.clone())));
        }
    }
    if tier == Tier::Quick {
        // a complete slice: every 2nd expression of the depth-1 block, all of depth 2
        let d1 = 3 * (8 * 4 + 9) + 5;
        let mut out: Vec<Expr> = v[..d1].iter().step_by(2).cloned().collect();
        out.extend(v[d1..].iter().cloned());
        return out;
    }
    v
}

pub fn patterns(tier: Tier) -> Vec<Pat> {
    let mut out: Vec<Pat> = vec![];
    // L0: BGPs
    let all = tps();
    for (i, t) in all.iter().enumerate() {
        if tier == Tier::Thorough || i % 3 == 0 {
            out.push(Pat::Bgp(vec![t.clone()]));
        }
    }
    let core = core_tps();
    for a in &core {
        for b2 in &core {
            out.push(Pat::Bgp(vec![a.clone(), b2.clone()]));
        }
    }
    out.push(Pat::Bgp(vec![]));
    out.push(Pat::Bgp(vec![core[0].clone(), core[1].clone(), core[9].clone()]));
    // L1
    let cb = core_bgps(tier.pick(8, 12));
    for a in &cb {
        for b2 in &cb {
            out.push(Pat::Union(Box::new(a.clone()), Box::new(b2.clone())));
        }
    }
    let gns = [GN::Const(ex("g")), GN::Var("g".into()), GN::Const(ex("absent")), GN::Var("x".into()), GN::Const(ex("h"))];
    for g in &gns {
        for a in &cb {
            out.push(Pat::Graph(g.clone(), Box::new(a.clone())));
        }
    }
    let es = exprs(tier);
    let fb = core_bgps(tier.pick(4, 8));
    for a in &fb {
        for e in &es {
            out.push(Pat::Filter(Box::new(a.clone()), e.clone()));
            out.push(Pat::Bind(Box::new(a.clone()), e.clone(), "w".into()));
        }
    }
    // L2: nesting
    let small = core_bgps(4);
    let es2: Vec<Expr> = es.iter().step_by(tier.pick(9, 3)).cloned().collect();
    for g in &gns {
        for a in &small {
            for b2 in &small {
                out.push(Pat::Graph(g.clone(), Box::new(Pat::Union(Box::new(a.clone()), Box::new(b2.clone())))));
                out.push(Pat::Union(Box::new(Pat::Graph(g.clone(), Box::new(a.clone()))), Box::new(b2.clone())));
                out.push(Pat::Union(Box::new(a.clone()), Box::new(Pat::Graph(g.clone(), Box::new(b2.clone())))));
            }
            for g2 in &gns {
                out.push(Pat::Graph(g.clone(), Box::new(Pat::Graph(g2.clone(), Box::new(a.clone())))));
            }
            for e in &es2 {
                out.push(Pat::Filter(Box::new(Pat::Graph(g.clone(), Box::new(a.clone()))), e.clone()));
                out.push(Pat::Graph(g.clone(), Box::new(Pat::Filter(Box::new(a.clone()), e.clone()))));
                out.push(Pat::Graph(g.clone(), Box::new(Pat::Bind(Box::new(a.clone()), e.clone(), "w".into()))));
                out.push(Pat::Bind(Box::new(Pat::Graph(g.clone(), Box::new(a.clone()))), e.clone(), "w".into()));
            }
        }
    }
    for a in &small {
        for b2 in &small {
            for e in &es2 {
                out.push(Pat::Filter(Box::new(Pat::Union(Box::new(a.clone()), Box::new(b2.clone()))), e.clone()));
                out.push(Pat::Bind(Box::new(Pat::Union(Box::new(a.clone()), Box::new(b2.clone()))), e.clone(), "w".into()));
                out.push(Pat::Union(Box::new(Pat::Filter(Box::new(a.clone()), e.clone())), Box::new(b2.clone())));
            }
        }
        // a filter on the variable bound by BIND
        out.push(Pat::Filter(Box::new(Pat::Bind(Box::new(a.clone()), Expr::Add(Box::new(Expr::Var("y".into())), Box::new(Expr::Const(int(1)))), "w".into())), Expr::Lt(Box::new(Expr::Var("w".into())), Box::new(Expr::Const(int(3))))));
        out.push(Pat::Filter(Box::new(Pat::Bind(Box::new(a.clone()), Expr::Var("u".into()), "w".into())), Expr::Not(Box::new(Expr::Bound("w".into())))));
    }
    out
}

fn vars_of(p: &Pat, out: &mut Vec<String>) {
    fn tpv(t: &TP, out: &mut Vec<String>) {
        match t {
            TP::Var(v) => {
                if !out.contains(v) {
                    out.push(v.clone())
                }
            }
            TP::Quoted(q) => q.iter().for_each(|x| tpv(x, out)),
            _ => {}
        }
    }
    match p {
        Pat::Bgp(ts) => ts.iter().for_each(|t| t.iter().for_each(|x| tpv(x, out))),
        Pat::Union(a, b) => {
            vars_of(a, out);
            vars_of(b, out)
        }
        Pat::Graph(g, a) => {
            if let GN::Var(v) = g {
                if !out.contains(v) {
                    out.push(v.clone())
                }
            }
            vars_of(a, out)
        }
        Pat::Filter(a, _) => vars_of(a, out),
        Pat::Bind(a, _, v) => {
            vars_of(a, out);
            if !out.contains(v) {
                out.push(v.clone())
            }
        }
    }
}

/// BIND must introduce a fresh variable, and a blank node label may not be reused across BGPs
fn well_formed(p: &Pat) -> bool {
    fn bind_ok(p: &Pat) -> bool {
        match p {
            Pat::Bind(a, _, v) => {
                let mut vs = vec![];
                vars_of(a, &mut vs);
                !vs.contains(v) && bind_ok(a)
            }
            Pat::Union(a, b) => bind_ok(a) && bind_ok(b),
            Pat::Graph(_, a) | Pat::Filter(a, _) => bind_ok(a),
            Pat::Bgp(_) => true,
        }
    }
    fn bnode_bgps(p: &Pat, n: &mut usize) {
        match p {
            Pat::Bgp(ts) => {
                fn has(t: &TP) -> bool {
                    match t {
                        TP::Bnode(_) => true,
                        TP::Quoted(q) => q.iter().any(has),
                        _ => false,
                    }
                }
                if ts.iter().any(|t| t.iter().any(has)) {
                    *n += 1;
                }
            }
            Pat::Union(a, b) => {
                bnode_bgps(a, n);
                bnode_bgps(b, n)
            }
            Pat::Graph(_, a) | Pat::Filter(a, _) | Pat::Bind(a, _, _) => bnode_bgps(a, n),
        }
    }
    let mut n = 0;
    bnode_bgps(p, &mut n);
    bind_ok(p) && n <= 1
}

pub fn queries(tier: Tier) -> Vec<Query> {
    let mut out = vec![];
    for (i, p) in patterns(tier).into_iter().enumerate() {
        if !well_formed(&p) {
            continue;
        }
        let q = |ask: bool, distinct: bool, proj: Option<Vec<&str>>, offset: usize, limit: Option<usize>| Query { ask, distinct, proj: proj.map(|v| v.into_iter().map(String::from).collect()), pat: p.clone(), offset, limit };
        out.push(q(false, false, None, 0, None));
        // the other query forms rotate over the patterns (complete for the thorough tier)
        let forms: Vec<Query> = vec![q(true, false, None, 0, None), q(false, true, None, 0, None), q(false, false, Some(vec!["x"]), 0, None), q(false, true, Some(vec!["y", "x"]), 0, None), q(false, true, Some(vec!["w", "g"]), 0, None), q(false, false, None, 1, None), q(false, false, None, 0, Some(1)), q(false, false, Some(vec!["x", "nosuchvar"]), 1, Some(2))];
        if tier == Tier::Thorough {
            out.extend(forms);
        } else {
            out.push(forms[i % forms.len()].clone());
            // DISTINCT matters where solutions may leave different variables unbound
            if matches!(p, Pat::Union(..) | Pat::Bind(..)) {
                out.push(forms[1].clone());
                out.push(forms[3].clone());
            }
        }
    }
    out
}

const UNSUPPORTED: [(&str, &str); 14] = [
    ("join-of-groups", "SELECT * { { ?x <http://ex.org/p> ?y } { ?y <http://ex.org/p> ?z } UNION { ?y <http://ex.org/q> ?z } }"),
    ("join-bgp-graph", "SELECT * { ?x <http://ex.org/p> ?y . GRAPH ?g { ?x <http://ex.org/p> ?y } }"),
    ("optional", "SELECT * { ?x <http://ex.org/p> ?y OPTIONAL { ?y <http://ex.org/p> ?z } }"),
    ("minus", "SELECT * { ?x <http://ex.org/p> ?y MINUS { ?x <http://ex.org/q> ?z } }"),
    ("values", "SELECT * { VALUES ?x { <http://ex.org/a> } ?x <http://ex.org/p> ?y }"),
    ("group-by", "SELECT ?x (COUNT(?y) AS ?n) { ?x <http://ex.org/p> ?y } GROUP BY ?x"),
    ("aggregate", "SELECT (COUNT(*) AS ?n) { ?x <http://ex.org/p> ?y }"),
    ("path-plus", "SELECT * { ?x <http://ex.org/p>+ ?y }"),
    ("path-star", "SELECT * { ?x <http://ex.org/p>* ?y }"),
    ("path-alt", "SELECT * { ?x (<http://ex.org/p>|<http://ex.org/q>) ?y }"),
    ("reduced", "SELECT REDUCED * { ?x <http://ex.org/p> ?y }"),
    ("service", "SELECT * { SERVICE <http://ex.org/sparql> { ?x <http://ex.org/p> ?y } }"),
    ("construct", "CONSTRUCT { ?x <http://ex.org/p> ?y } WHERE { ?x <http://ex.org/p> ?y }"),
    ("describe", "DESCRIBE ?x { ?x <http://ex.org/p> ?y }"),
];

#[derive(Debug, Clone, PartialEq)]
pub enum Got {
    Rows(Vec<String>, Vec<Sol>),
    Bool(bool),
    NotImplemented(String),
    Override,
    ParseError(String),
    Other(String),
    Panic(String),
}

pub fn run_query(d: &[AQuad], q: &str) -> Got {
    let data: Vec<Spog<ST>> = d.iter().map(to_squad).collect();
    let r = guarded(|| {
        let w = SparqlWrapper(&data);
        match w.query(q) {
            Ok(SparqlResult::Bindings(b)) => {
                let vars: Vec<String> = b.variables().into_iter().map(String::from).collect();
                let mut rows = vec![];
                for row in b {
                    match row {
                        Ok(r) => {
                            let mut s = Sol::new();
                            for (k, t) in vars.iter().zip(r) {
                                if let Some(t) = t {
                                    s.insert(k.clone(), ATerm::from_term(t));
                                }
                            }
                            rows.push(s);
                        }
                        Err(e) => return Got::Other(format!("row error: {e}")),
                    }
                }
                Got::Rows(vars, rows)
            }
            Ok(SparqlResult::Boolean(x)) => Got::Bool(x),
            Ok(SparqlResult::Triples(_)) => Got::Other("triples".into()),
            Err(SparqlWrapperError::NotImplemented(m)) => Got::NotImplemented(m.to_string()),
            Err(SparqlWrapperError::Override(_)) => Got::Override,
            Err(SparqlWrapperError::Parse(e)) => Got::ParseError(e.to_string()),
            Err(e) => Got::Other(e.to_string()),
        }
    });
    match r {
        Ok(g) => g,
        Err(p) => Got::Panic(p),
    }
}

fn norm(s: &Sol) -> BTreeMap<String, ATerm> {
    s.iter().map(|(k, v)| (k.clone(), v.key())).collect()
}
fn multiset(v: &[Sol]) -> BTreeMap<BTreeMap<String, ATerm>, usize> {
    let mut m = BTreeMap::new();
    for s in v {
        *m.entry(norm(s)).or_insert(0) += 1;
    }
    m
}

/// does the query contain `GRAPH ?v { P }` where an expression inside P mentions ?v although the
/// patterns under that expression do not bind it?  (The algebra evaluates P independently of ?v.)
fn graph_var_leaks(p: &Pat) -> bool {
    fn expr_vars(e: &Expr, out: &mut Vec<String>) {
        use Expr::*;
        match e {
            Var(v) | Bound(v) => out.push(v.clone()),
            Const(_) => {}
            Eq(a, b) | Neq(a, b) | Lt(a, b) | Or(a, b) | And(a, b) | SameTerm(a, b) | Add(a, b) => {
                expr_vars(a, out);
                expr_vars(b, out)
            }
            Not(a) | IsIri(a) | IsBlank(a) | IsLiteral(a) | Str(a) | Lang(a) | Datatype(a) => expr_vars(a, out),
        }
    }
    fn uses_unbound(p: &Pat, v: &str) -> bool {
        match p {
            Pat::Bgp(_) => false,
            Pat::Union(a, b) => uses_unbound(a, v) || uses_unbound(b, v),
            Pat::Graph(_, a) => uses_unbound(a, v),
            Pat::Filter(a, e) | Pat::Bind(a, e, _) => {
                let mut ev = vec![];
                expr_vars(e, &mut ev);
                let mut pv = vec![];
                vars_of(a, &mut pv);
                (ev.iter().any(|x| x == v) && !pv.iter().any(|x| x == v)) || uses_unbound(a, v)
            }
        }
    }
    match p {
        Pat::Graph(GN::Var(v), a) => uses_unbound(a, v) || graph_var_leaks(a),
        Pat::Graph(_, a) | Pat::Filter(a, _) | Pat::Bind(a, _, _) => graph_var_leaks(a),
        Pat::Union(a, b) => graph_var_leaks(a) || graph_var_leaks(b),
        Pat::Bgp(_) => false,
    }
}

fn feature(q: &Query) -> String {
    if graph_var_leaks(&q.pat) {
        return "graph-variable-visible-in-inner-expression".into();
    }
    fn walk(p: &Pat, f: &mut Vec<&'static str>) {
        match p {
            Pat::Bgp(ts) => {
                if ts.is_empty() {
                    f.push("empty-group")
                }
            }
            Pat::Union(a, b) => {
                f.push("union");
                walk(a, f);
                walk(b, f)
            }
            Pat::Graph(g, a) => {
                f.push(match g {
                    GN::Const(_) => "graph-const",
                    GN::Var(_) => "graph-var",
                });
                walk(a, f)
            }
            Pat::Filter(a, e) => {
                f.push("filter");
                ewalk(e, f);
                walk(a, f)
            }
            Pat::Bind(a, e, _) => {
                f.push("bind");
                ewalk(e, f);
                walk(a, f)
            }
        }
    }
    fn ewalk(e: &Expr, f: &mut Vec<&'static str>) {
        match e {
            Expr::Or(a, b) | Expr::And(a, b) => {
                f.push("logical-connective");
                ewalk(a, f);
                ewalk(b, f)
            }
            Expr::Not(a) => ewalk(a, f),
            _ => {}
        }
    }
    let mut f = vec![];
    walk(&q.pat, &mut f);
    f.sort();
    f.dedup();
    if f.is_empty() { "bgp".into() } else { f.join("+") }
}

fn check(d: &[AQuad], q: &Query, st: &mut Stats) -> Option<Violation> {
    let text = render(q);
    let case = json!({"query": text, "data": quads_nq(d)});
    st.inc("validated");
    let got = run_query(d, &text);
    UNSPECIFIED.with(|u| u.set(false));
    let expected = eval_query(q, d);
    if UNSPECIFIED.with(|u| u.get()) {
        // the query applies an operator to operands for which SPARQL 1.1 defines no result but
        // allows extensions to define one: only "no panic" is demanded
        st.inc("skipped_operator_table_gap");
        return match got {
            Got::Panic(p) => Some(Violation::new("panic", p, case)),
            _ => None,
        };
    }
    let feat = feature(q);
    match got {
        Got::Panic(p) => Some(Violation::new(format!("panic:{feat}"), format!("{text} panicked: {p}"), case)),
        Got::ParseError(e) => {
            // a generator problem, not a verdict on the engine
            st.inc("generator_parse_errors");
            st.outcome("parse-error");
            let _ = e;
            None
        }
        Got::Override => {
            st.inc("override_errors");
            None
        }
        Got::NotImplemented(m) => Some(Violation::new(format!("not-implemented-for-supported-query:{feat}"), format!("{text}: {m}"), case)),
        Got::Other(e) => Some(Violation::new(format!("unexpected-error:{feat}"), format!("{text}: {e}"), case)),
        Got::Bool(x) => {
            st.outcome("ask");
            if !q.ask || x == expected.is_empty() {
                let sig = if feat == "graph-variable-visible-in-inner-expression" { feat.clone() } else { format!("wrong-ask-answer:{feat}") };
                Some(Violation::new(sig, format!("{text} on {:?} answers {x}, the algebra has {} solution(s)", quads_nq(d), expected.len()), case))
            } else {
                None
            }
        }
        Got::Rows(_vars, rows) => {
            if q.ask {
                return Some(Violation::new("ask-returned-bindings", text, case));
            }
            if !expected.is_empty() {
                st.inc("nontrivial");
            }
            st.outcome(if expected.is_empty() { "select-empty" } else if expected.len() == 1 { "select-one" } else { "select-many" });
            let gm = multiset(&rows);
            let em = multiset(&expected);
            let ok = if q.offset == 0 && q.limit.is_none() {
                gm == em
            } else {
                let size = expected.len().saturating_sub(q.offset).min(q.limit.unwrap_or(usize::MAX));
                rows.len() == size && gm.iter().all(|(k, n)| em.get(k).map(|m| n <= m).unwrap_or(false))
            };
            if ok {
                None
            } else {
                let kind = if rows.len() < expected.len() && q.offset == 0 && q.limit.is_none() {
                    "solutions-missing"
                } else if rows.len() > expected.len() {
                    "spurious-solutions"
                } else {
                    "solutions-differ"
                };
                let sig = if feat == "graph-variable-visible-in-inner-expression" { feat.clone() } else { format!("{kind}:{feat}") };
                Some(Violation::new(
                    sig,
                    format!("{text} on {:?}: engine returns {:?}, the algebra gives {:?}", quads_nq(d), rows.iter().map(show).collect::<Vec<_>>(), expected.iter().map(show).collect::<Vec<_>>()),
                    case,
                ))
            }
        }
    }
}
fn show(s: &Sol) -> String {
    s.iter().map(|(k, v)| format!("?{k}={}", v.nq())).collect::<Vec<_>>().join(" ")
}

pub fn run(tier: Tier) -> Report {
    let mut rep = Report::new("C13", tier);
    let qs = queries(tier);
    let ds = datasets(tier);
    rep.stats.add("queries", qs.len() as u64);
    rep.stats.add("datasets", ds.len() as u64);
    rep.stats.add("states", (qs.len() * ds.len()) as u64);
    let res: Vec<(Stats, Vec<Violation>)> = qs
        .par_iter()
        .map(|q| {
            let mut st = Stats::default();
            let mut out: Vec<Violation> = vec![];
            for d in &ds {
                if let Some(v) = check(d, q, &mut st) {
                    if out.len() < 3 {
                        out.push(v);
                    } else {
                        st.inc("violations_not_listed");
                    }
                }
            }
            (st, out)
        })
        .collect();
    for (st, out) in res {
        rep.stats.merge(&st);
        rep.violations.extend(out);
    }
    // unsupported operators: explicit not-implemented error, on every dataset of a small slice
    for (name, q) in UNSUPPORTED {
        for d in ds.iter().step_by(17) {
            rep.stats.inc("validated");
            match run_query(d, q) {
                Got::NotImplemented(_) => {
                    rep.stats.inc("not_implemented_confirmed");
                }
                other => rep.violations.push(Violation::new(format!("unsupported-operator-not-refused:{name}"), format!("{q}: {other:?}"), json!({"query": q, "data": quads_nq(d)}))),
            }
        }
    }
    // dataset clauses: either refused, or answered over the dataset that the clause describes
    // (FROM NAMED <g>: the default graph is empty and <g> is the only named graph)
    let from_named_pats: Vec<Pat> = vec![
        Pat::Graph(GN::Const(ex("h")), Box::new(Pat::Bgp(vec![[v("x"), v("p"), v("y")]]))),
        Pat::Graph(GN::Const(ex("g")), Box::new(Pat::Bgp(vec![[v("x"), v("p"), v("y")]]))),
        Pat::Graph(GN::Var("g".into()), Box::new(Pat::Bgp(vec![[v("x"), v("p"), v("y")]]))),
        Pat::Graph(GN::Const(ex("h")), Box::new(Pat::Bgp(vec![]))),
        Pat::Graph(GN::Var("g".into()), Box::new(Pat::Bgp(vec![]))),
        Pat::Bgp(vec![[v("x"), v("p"), v("y")]]),
    ];
    for pat in &from_named_pats {
        for ask in [false, true] {
            let q = Query { ask, distinct: false, proj: None, pat: pat.clone(), offset: 0, limit: None };
            let text = render(&q);
            let text = if ask { text.replacen("ASK", "ASK FROM NAMED <http://ex.org/g>", 1) } else { text.replacen(" WHERE", " FROM NAMED <http://ex.org/g> WHERE", 1) };
            for d in ds.iter().step_by(5) {
                rep.stats.inc("validated");
                let restricted: Vec<AQuad> = d.iter().filter(|q| q.1.as_ref() == Some(&ex("g"))).cloned().collect();
                let expected = eval_query(&q, &restricted);
                let ok = match run_query(d, &text) {
                    Got::NotImplemented(_) => true,
                    Got::Bool(x) => ask && x != expected.is_empty(),
                    Got::Rows(_, rows) => !ask && multiset(&rows) == multiset(&expected),
                    _ => false,
                };
                if !ok {
                    rep.violations.push(Violation::new("dataset-clause-neither-refused-nor-honoured:from-named", format!("{text} on {:?}: {:?}", quads_nq(d), run_query(d, &text)), json!({"query": text, "data": quads_nq(d)})));
                }
            }
        }
    }
    rep.stats.add("transitions", rep.stats.get("validated"));
    rep.stats.sample(json!({"query": render(&qs[qs.len() / 2]), "data": quads_nq(&ds[ds.len() - 1])}));
    rep.rule = format!(
        "{} queries generated from the grammar Q ::= SELECT [DISTINCT] (*|vars) W [OFFSET m] [LIMIT n] | ASK W; W ::= BGP | W UNION W | GRAPH (iri|?g) W | W FILTER E | W BIND(E AS ?w) (nesting depth 2) with BGPs of <= 2-3 triple patterns over variables (repeated), blank-node placeholders, constants and quoted-triple patterns, and expressions of depth <= 2 over = != < + && || ! bound isIRI isBlank isLiteral sameTerm str lang datatype incl. unbound variables and type errors; x {} datasets (empty, every single quad of a 128-quad universe over default and two named graphs, all subsets of <= {} quads of a 12-quad core); each result is compared with a reference evaluation of the SPARQL 1.1 algebra (multisets of solutions; OFFSET/LIMIT: a sub-multiset of the right size); {} queries using unsupported operators must yield NotImplemented; non-trivial = evaluations with at least one solution",
        qs.len(),
        ds.len(),
        tier.pick(2, 4),
        UNSUPPORTED.len()
    );
    rep.bounds = json!({"queries": qs.len(), "datasets": ds.len()});
    rep.assumptions = vec![
        "reference evaluator: model/refsparql.rs (written from SPARQL 1.1 section 18; RDFterm-equal raises a type error for two different literals that are not both strings)".into(),
        "queries the engine rejects at parse time are skipped and counted (generator_parse_errors)".into(),
    ];
    rep
}

pub fn replay(case: &Value) -> Vec<Violation> {
    // the recorded query text is matched against the generated queries of the thorough tier
    let text = case["query"].as_str().unwrap_or("");
    let d: Vec<AQuad> = case["data"].as_array().map(|a| a.iter().filter_map(|q| q.as_str().and_then(|s| refnq::parse_quad(s).ok())).collect()).unwrap_or_default();
    for (name, q) in UNSUPPORTED {
        if q == text {
            return match run_query(&d, q) {
                Got::NotImplemented(_) => vec![],
                other => vec![Violation::new(format!("unsupported-operator-not-refused:{name}"), format!("{other:?}"), case.clone())],
            };
        }
    }
    let mut st = Stats::default();
    for q in queries(Tier::Thorough) {
        if render(&q) == text {
            return check(&d, &q, &mut st).into_iter().collect();
        }
    }
    vec![Violation::new("replay-error", "query not found in the generated set", case.clone())]
}
