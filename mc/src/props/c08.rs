//! C08 — parsers are total: any input yields an error or well-formed terms, never a panic (E4 + E5).
//!
//! Exhaustive bounded families of inputs (single edits of seed documents, token words, IRI /
//! label / tag / variable strings embedded at every position of every syntax, nesting ladders,
//! long tokens, configured bases), each run through the real parser in child processes of three
//! build profiles: `checked` (optimised + debug assertions), `dev` and `release`.
use crate::fw::*;
use crate::pool::{Pooled, my_profile};
use serde_json::{Value, json};
use sophia_api::parser::{QuadParser, TripleParser};
use sophia_api::source::{QuadSource, TripleSource};
use sophia_api::term::{BnodeId, LanguageTag, Term, TermKind, VarName};
use sophia_iri::{Iri, IriRef};
use sophia_jsonld::{JsonLdOptions, JsonLdParser};
use sophia_turtle::parser::{gnq::GNQuadsParser, gtrig::GTriGParser, nq::NQuadsParser, nt::NTriplesParser, trig::TriGParser, turtle::TurtleParser};
use sophia_xml::parser::RdfXmlParser;

pub struct C08;

pub const PARSERS: [&str; 8] = ["nt", "nq", "turtle", "trig", "gnq", "gtrig", "xml", "jsonld"];
fn strict(parser: &str) -> bool {
    !matches!(parser, "gnq" | "gtrig")
}

#[derive(Clone, Debug)]
pub enum Input {
    Bytes(Vec<u8>),
    /// a nesting ladder rung, materialised in the worker
    Nest(String, usize),
    /// one very long token, materialised in the worker
    Long(String, usize),
}
#[derive(Clone, Debug)]
pub struct Case {
    pub profile: String,
    pub parser: String,
    pub family: String,
    /// configured base IRI (Turtle, TriG, GTriG, RDF/XML parsers)
    pub base: Option<String>,
    pub input: Input,
}

// ------------------------------------------------------------------------------------------
// oracle: every accessor of every yielded term

#[derive(Default)]
struct Obs {
    statements: u64,
    terms: u64,
    /// (defect, position, offending string)
    bad: Vec<(String, String, String)>,
}

fn classify_iri(s: &str) -> &'static str {
    if s.chars().any(|c| (c as u32) <= 0x20 || c == '\u{7f}') {
        "space-or-control"
    } else if s.chars().any(|c| "<>\"{}|^`\\".contains(c)) {
        "forbidden-ascii"
    } else if s.contains('[') || s.contains(']') {
        "bracket"
    } else if {
        let b = s.as_bytes();
        (0..b.len()).any(|i| b[i] == b'%' && !(i + 2 < b.len() + 0 && b.get(i + 1).is_some_and(u8::is_ascii_hexdigit) && b.get(i + 2).is_some_and(u8::is_ascii_hexdigit)))
    } {
        "bad-percent"
    } else if s.chars().any(|c| matches!(c as u32, 0xE000..=0xF8FF | 0xF0000..=0x10FFFF | 0xFFF0..=0xFFFF | 0x80..=0x9F | 0xFDD0..=0xFDEF)) {
        "non-iri-unicode"
    } else if !s.contains(':') {
        "no-scheme"
    } else {
        "other"
    }
}

fn check_term<T: Term>(t: &T, strict: bool, pos: &str, o: &mut Obs, depth: usize) {
    o.terms += 1;
    let kind = t.kind();
    let mut acc = |name: &str, r: Result<Option<String>, String>, o: &mut Obs| -> Option<String> {
        match r {
            Ok(x) => x,
            Err(p) => {
                o.bad.push((format!("accessor-panic:{name}"), pos.to_string(), truncate(&p, 200)));
                None
            }
        }
    };
    match kind {
        TermKind::Iri => {
            if let Some(s) = acc("iri", guarded(|| t.iri().map(|i| i.as_str().to_string())), o) {
                if IriRef::new(s.as_str()).is_err() {
                    o.bad.push((format!("invalid-iri:{}", classify_iri(&s)), pos.into(), s));
                } else if strict && Iri::new(s.as_str()).is_err() {
                    o.bad.push(("relative-iri-from-strict-parser".into(), pos.into(), s));
                }
            }
        }
        TermKind::BlankNode => {
            if let Some(s) = acc("bnode_id", guarded(|| t.bnode_id().map(|i| i.as_str().to_string())), o) {
                if BnodeId::new(s.as_str()).is_err() {
                    o.bad.push(("invalid-bnode-label".into(), pos.into(), s));
                }
            }
        }
        TermKind::Literal => {
            let _ = acc("lexical_form", guarded(|| t.lexical_form().map(|i| i.to_string())), o);
            match acc("datatype", guarded(|| t.datatype().map(|i| i.as_str().to_string())), o) {
                Some(s) => {
                    if IriRef::new(s.as_str()).is_err() {
                        o.bad.push((format!("invalid-iri:{}", classify_iri(&s)), format!("{pos}-datatype"), s));
                    } else if strict && Iri::new(s.as_str()).is_err() {
                        o.bad.push(("relative-iri-from-strict-parser".into(), format!("{pos}-datatype"), s));
                    }
                }
                None => {}
            }
            if let Some(s) = acc("language_tag", guarded(|| t.language_tag().map(|i| i.as_str().to_string())), o) {
                if LanguageTag::new(s.as_str()).is_err() {
                    o.bad.push(("invalid-language-tag".into(), pos.into(), s));
                }
            }
        }
        TermKind::Variable => {
            if let Some(s) = acc("variable", guarded(|| t.variable().map(|i| i.as_str().to_string())), o) {
                if VarName::new(s.as_str()).is_err() {
                    o.bad.push(("invalid-variable-name".into(), pos.into(), s));
                }
            }
        }
        TermKind::Triple => {
            if depth > 64 {
                return;
            }
            match guarded(|| t.triple().is_some()) {
                Ok(true) => {
                    let [s, p, ob] = t.triple().unwrap();
                    check_term(&s, strict, &format!("{pos}.s"), o, depth + 1);
                    check_term(&p, strict, &format!("{pos}.p"), o, depth + 1);
                    check_term(&ob, strict, &format!("{pos}.o"), o, depth + 1);
                }
                Ok(false) => o.bad.push(("triple-kind-without-triple".into(), pos.into(), String::new())),
                Err(p) => o.bad.push(("accessor-panic:triple".into(), pos.into(), truncate(&p, 200))),
            }
        }
    }
}

enum Ran {
    Ok(Obs),
    /// the parser reported an error value (after possibly yielding statements)
    Err(Obs, String),
    Panic(String),
}

type JOpts = JsonLdOptions<sophia_jsonld::loader_factory::DefaultLoaderFactory<sophia_jsonld::loader::NoLoader>>;

fn run_parser(parser: &str, base: Option<&str>, data: &[u8]) -> Ran {
    let st = strict(parser);
    let parser = parser.to_string();
    let base_s = base.map(|b| b.to_string());
    let r = guarded(move || {
        let mut o = Obs::default();
        // the base is configured through the toolkit's own validated type
        let base: Option<Iri<String>> = match base_s {
            Some(b) => match Iri::new(b) {
                Ok(i) => Some(i),
                Err(_) => return (o, Some("base refused by Iri::new".to_string())),
            },
            None => None,
        };
        macro_rules! triples {
            ($p:expr) => {{
                let mut src = $p.parse(data);
                let r = src.try_for_each_triple(|t| -> Result<(), std::convert::Infallible> {
                    use sophia_api::triple::Triple;
                    o.statements += 1;
                    check_term(&t.s(), st, "s", &mut o, 0);
                    check_term(&t.p(), st, "p", &mut o, 0);
                    check_term(&t.o(), st, "o", &mut o, 0);
                    Ok(())
                });
                r.err().map(|e| e.to_string())
            }};
        }
        macro_rules! quads {
            ($p:expr) => {{
                let mut src = $p.parse(data);
                let r = src.try_for_each_quad(|q| -> Result<(), std::convert::Infallible> {
                    use sophia_api::quad::Quad;
                    o.statements += 1;
                    check_term(&q.s(), st, "s", &mut o, 0);
                    check_term(&q.p(), st, "p", &mut o, 0);
                    check_term(&q.o(), st, "o", &mut o, 0);
                    if let Some(g) = q.g() {
                        check_term(&g, st, "g", &mut o, 0);
                    }
                    Ok(())
                });
                r.err().map(|e| e.to_string())
            }};
        }
        let e = match parser.as_str() {
            "nt" => triples!(NTriplesParser {}),
            "nq" => quads!(NQuadsParser {}),
            "turtle" => triples!(TurtleParser { base }),
            "trig" => quads!(TriGParser { base }),
            "gnq" => quads!(GNQuadsParser {}),
            "gtrig" => quads!(GTriGParser { base }),
            "xml" => triples!(RdfXmlParser { base }),
            "jsonld" => {
                let mut op: JOpts = JsonLdOptions::new();
                if let Some(b) = base {
                    op = op.with_base(b.map_unchecked(std::sync::Arc::from));
                }
                quads!(JsonLdParser::new_with_options(op))
            }
            _ => unreachable!(),
        };
        (o, e)
    });
    match r {
        Ok((o, None)) => Ran::Ok(o),
        Ok((o, Some(e))) => Ran::Err(o, e),
        Err(p) => Ran::Panic(p),
    }
}

// ------------------------------------------------------------------------------------------
// input families

fn seeds(parser: &str) -> Vec<&'static str> {
    let nt: Vec<&'static str> = vec![
        "<http://a/s> <http://a/p> <http://a/o> .\n",
        "_:b1 <http://a/p> \"l\\u00e9\\n\"@en-US .\n",
        "<http://a/s> <http://a/p> \"1\"^^<http://a/d> . # c\n",
        "<< <http://a/s> <http://a/p> _:b >> <http://a/p> \"x\" .\n",
    ];
    let nq: Vec<&'static str> = vec!["<http://a/s> <http://a/p> \"l\" <http://a/g> .\n", "_:s <http://a/p> <http://a/o> _:g .\n"];
    let gnq: Vec<&'static str> = vec!["?v <http://a/p> \"l\"@en ?g .\n", "\"lit\" _:p <a> <g> .\n"];
    let ttl: Vec<&'static str> = vec![
        "@prefix p: <http://a/> .\np:s p:p p:o , \"l\"@en ; a p:C .\n",
        "@base <http://a/> .\n<s> <p> [ <q> ( 1 2.0 3e0 true ) ] .\n",
        "PREFIX p: <http://a/>\nBASE <http://a/b/>\n<../s> p:p%41\\~ \"\"\"long \"q\" \nx\"\"\"^^p:d .\n",
        "<< <http://a/s> <http://a/p> <http://a/o> >> <http://a/q> 'x' {| <http://a/r> 1 |} .\n",
        "_:b.c <http://a/p> '''x''' . [] <http://a/p> () .\n",
    ];
    let trig: Vec<&'static str> = vec!["<http://a/g> { <http://a/s> <http://a/p> <http://a/o> }\n", "GRAPH _:g { [] <http://a/p> 1 }\n"];
    let gtrig: Vec<&'static str> = vec!["?s ?p ?o . <g> { \"l\" <p> ?x }\n"];
    let xml: Vec<&'static str> = vec![
        "<rdf:RDF xmlns:rdf=\"http://www.w3.org/1999/02/22-rdf-syntax-ns#\" xmlns:e=\"http://a/\"><rdf:Description rdf:about=\"http://a/s\"><e:p rdf:resource=\"http://a/o\"/><e:q xml:lang=\"en\">l</e:q></rdf:Description></rdf:RDF>",
        "<rdf:RDF xmlns:rdf=\"http://www.w3.org/1999/02/22-rdf-syntax-ns#\" xmlns:e=\"http://a/\" xml:base=\"http://a/b\"><e:T rdf:ID=\"i\" e:a=\"v\"><e:p rdf:nodeID=\"n\"/><e:q rdf:datatype=\"http://a/d\">1</e:q><e:r rdf:parseType=\"Literal\"><b>x</b></e:r><e:c rdf:parseType=\"Collection\"><rdf:Description rdf:about=\"x\"/></e:c><rdf:li rdf:parseType=\"Resource\"><e:p>&lt;</e:p></rdf:li></e:T></rdf:RDF>",
    ];
    let jsonld: Vec<&'static str> = vec![
        "{\"@id\":\"http://a/s\",\"http://a/p\":[{\"@id\":\"http://a/o\"},{\"@value\":\"l\",\"@language\":\"en\"}]}",
        "{\"@context\":{\"p\":\"http://a/p\",\"@base\":\"http://a/\",\"@vocab\":\"http://a/v#\"},\"@id\":\"s\",\"p\":{\"@list\":[1,2.5,true,null,\"x\"]},\"@type\":\"T\"}",
        "{\"@graph\":[{\"@id\":\"_:b\",\"http://a/p\":{\"@value\":\"1\",\"@type\":\"http://a/d\"}}],\"@id\":\"http://a/g\"}",
        "[{\"@id\":\"http://a/s\",\"@reverse\":{\"http://a/p\":{\"@id\":\"_:x\"}},\"http://a/j\":{\"@value\":{\"k\":[1]},\"@type\":\"@json\"}}]",
    ];
    match parser {
        "nt" => nt,
        "nq" => [nt, nq].concat(),
        "gnq" => [nt, nq, gnq].concat(),
        "turtle" => [nt, ttl].concat(),
        "trig" => [nt, ttl, trig].concat(),
        "gtrig" => [nt, ttl, trig, gtrig].concat(),
        "xml" => xml,
        _ => jsonld,
    }
}

/// insertion / replacement alphabet: structural bytes of all syntaxes, a letter, a digit, white
/// space, NUL, and ill-formed UTF-8 sequences
fn edit_alphabet(tier: Tier) -> Vec<Vec<u8>> {
    let singles: &[u8] = match tier {
        Tier::Quick => b"<>\"'\\{}[]().,;:@#^_?%&= /\n\0a1",
        Tier::Thorough => b"<>\"'\\{}[]().,;:@#^_-?$%&=|*+!~ /\n\t\r\0a1Ee",
    };
    let mut v: Vec<Vec<u8>> = singles.iter().map(|b| vec![*b]).collect();
    v.push(vec![0x80]);
    v.push(vec![0xFF]);
    v.push(vec![0xC0, 0x80]);
    v.push(vec![0xED, 0xA0, 0x80]);
    v.push(vec![0xF4, 0x90, 0x80, 0x80]);
    v.push(vec![0xE2, 0x82]);
    v.push("é".as_bytes().to_vec());
    v.push("\u{FFFE}".as_bytes().to_vec());
    v
}

fn single_edits(seed: &[u8], tier: Tier, f: &mut dyn FnMut(Vec<u8>)) {
    let alpha = edit_alphabet(tier);
    f(seed.to_vec());
    for i in 0..seed.len() {
        // deletion, truncation
        let mut d = seed.to_vec();
        d.remove(i);
        f(d);
        f(seed[..i].to_vec());
        // bit flips
        for bit in 0..8 {
            let mut d = seed.to_vec();
            d[i] ^= 1 << bit;
            f(d);
        }
        // replacement
        for a in &alpha {
            let mut d = seed[..i].to_vec();
            d.extend_from_slice(a);
            d.extend_from_slice(&seed[i + 1..]);
            f(d);
        }
    }
    for i in 0..=seed.len() {
        for a in &alpha {
            let mut d = seed[..i].to_vec();
            d.extend_from_slice(a);
            d.extend_from_slice(&seed[i..]);
            f(d);
        }
    }
}

fn tokens(parser: &str) -> Vec<&'static str> {
    match parser {
        "nt" | "nq" | "gnq" => {
            let mut v = vec!["<http://a/x>", "<r>", "_:b", "\"l\"", "\"l\"@en", "\"1\"^^<http://a/d>", ".", "\n", "<<", ">>", "#c\n", "^^", "@"];
            if parser == "gnq" {
                v.push("?v");
            }
            v
        }
        "turtle" | "trig" | "gtrig" => {
            let mut v = vec![
                "<http://a/x>", "<r>", "_:b", "\"l\"", "\"l\"@en", "\"1\"^^<http://a/d>", ".", ";", ",", "[", "]", "(", ")", "a", "@prefix p: <http://a/> .", "p:x", ":",
                "<<", ">>", "{|", "|}", "@base <http://a/b> .", "1", "true", "'''", "^^",
            ];
            if parser != "turtle" {
                v.extend(["{", "}", "GRAPH"]);
            }
            if parser == "gtrig" {
                v.push("?v");
            }
            v
        }
        "xml" => vec![
            "<rdf:RDF xmlns:rdf=\"http://www.w3.org/1999/02/22-rdf-syntax-ns#\" xmlns:e=\"http://a/\">",
            "</rdf:RDF>",
            "<rdf:Description rdf:about=\"http://a/s\">",
            "<rdf:Description>",
            "</rdf:Description>",
            "<e:p>",
            "</e:p>",
            "<e:p rdf:resource=\"r\"/>",
            "<e:p rdf:parseType=\"Resource\">",
            "<e:p rdf:parseType=\"Collection\">",
            "<e:p rdf:parseType=\"Literal\">",
            "<rdf:li>",
            "</rdf:li>",
            "text",
            "<e:T rdf:ID=\"i\" e:q=\"v\"/>",
            "<!--c-->",
            "<![CDATA[x]]>",
            "&amp;",
            "<?xml version=\"1.0\"?>",
        ],
        _ => vec![
            "{", "}", "[", "]", ",", ":", "\"@id\"", "\"@value\"", "\"@type\"", "\"@list\"", "\"@graph\"", "\"@context\"", "\"@language\"", "\"http://a/p\"", "\"_:b\"", "\"x\"", "1", "null", "true",
            "\"@reverse\"", "\"@set\"", "\"@vocab\"", "\"@base\"",
        ],
    }
}

/// the strings placed where an IRI is expected
fn iri_words(tier: Tier, f: &mut dyn FnMut(String)) {
    let alpha: Vec<&str> = match tier {
        Tier::Quick => vec!["a", ":", "/", "?", "#", "[", "]", "@", "%", "4", ".", "é", "\\u0020", " ", "{", "\u{E000}"],
        Tier::Thorough => {
            vec!["a", ":", "/", "?", "#", "[", "]", "@", "%", "4", ".", "~", "é", "\\u0020", "\\u003C", " ", "\"", "<", "\\", "{", "|", "^", "`", "\u{E000}", "\u{FFFE}", "\u{202E}", "+", "-"]
        }
    };
    let k = tier.pick(2, 3);
    for tpl in ["{}", "http://a/{}", "http://{}", "a:{}", "http://[{}]/"] {
        words_upto(alpha.len(), k, &mut |w| {
            let s: String = w.iter().map(|i| alpha[*i]).collect();
            f(tpl.replace("{}", &s));
        });
    }
    // fixed unusual IRIs
    for s in [
        "http://[::1]/", "http://[v1.a:b]/", "http://[::ffff:1.2.3.4]:80/", "http://[1::2::3]/", "http://a//b//", "http://a/b/../../..", "http://a/%C3%A9%zz", "http://a/%", "urn:", "a:", "://", "http://a:99999999999/",
        "http://a:b@c/", "http://é/", "HTTP://A/", "x-y.z+1:a", "1a:b", "http://a/\u{10FFFF}", "http://a/?\u{E000}", "http://a/#\u{E000}",
    ] {
        f(s.to_string());
    }
}

/// documents embedding `iri` at every position where the syntax takes an IRI
fn iri_documents(parser: &str, iri: &str) -> Vec<String> {
    let jesc = |s: &str| serde_json::to_string(s).unwrap();
    let xesc = |s: &str| s.replace('&', "&amp;").replace('<', "&lt;").replace('"', "&quot;");
    // one document per position: a defect at one position must not be masked by the refusal of the
    // same string at an earlier position
    let v = "<http://a/v>";
    match parser {
        "nt" => vec![
            format!("<{iri}> {v} {v} .\n"),
            format!("{v} <{iri}> {v} .\n"),
            format!("{v} {v} <{iri}> .\n"),
            format!("_:b {v} \"l\"^^<{iri}> .\n"),
            format!("<< <{iri}> {v} {v} >> {v} << {v} {v} <{iri}> >> .\n"),
            format!("<{iri}> <{iri}> <{iri}> .\n"),
        ],
        "nq" | "gnq" => vec![
            format!("<{iri}> {v} {v} {v} .\n"),
            format!("{v} <{iri}> {v} {v} .\n"),
            format!("{v} {v} <{iri}> {v} .\n"),
            format!("{v} {v} {v} <{iri}> .\n"),
            format!("_:b {v} \"l\"^^<{iri}> {v} .\n"),
            format!("<{iri}> <{iri}> <{iri}> <{iri}> .\n"),
        ],
        "turtle" => vec![
            format!("<{iri}> {v} {v} .\n"),
            format!("{v} <{iri}> {v} .\n"),
            format!("{v} {v} <{iri}> .\n"),
            format!("{v} {v} \"l\"^^<{iri}> .\n"),
            format!("@base <http://a/b/c?q#f> . <{iri}> {v} {v} . {v} <{iri}> {v} . {v} {v} <{iri}> .\n"),
            format!("@prefix p: <{iri}> . @prefix q: <http://a/> . p:x q:y q:z .\n"),
            format!("@prefix p: <{iri}> . @prefix q: <http://a/> . q:x p:y q:z .\n"),
            format!("@prefix p: <{iri}> . @prefix q: <http://a/> . q:x q:y p:z .\n"),
            format!("@prefix p: <{iri}> . @prefix q: <http://a/> . q:x q:y \"l\"^^p:z , p: .\n"),
            format!("@prefix p: <{iri}> . @prefix q: <http://a/> . q:x q:y [ p:y ( p:z ) ] .\n"),
            format!("@base <{iri}> . <x> {v} {v} . {v} <y> {v} . {v} {v} <> .\n"),
            format!("@prefix p: <http://a/> . p:{iri} {v} {v} . {v} p:{iri} {v} . {v} {v} p:{iri} .\n"),
        ],
        "trig" | "gtrig" => vec![
            format!("<{iri}> {{ {v} {v} {v} }}\n"),
            format!("{v} {{ <{iri}> {v} {v} }}\n"),
            format!("{v} {{ {v} <{iri}> {v} }}\n"),
            format!("{v} {{ {v} {v} <{iri}> }}\n"),
            format!("{v} {{ {v} {v} \"l\"^^<{iri}> }}\n"),
            format!("@base <http://a/b/c?q#f> . <{iri}> {{ {v} {v} {v} }} {v} {{ <{iri}> {v} {v} . {v} <{iri}> {v} . {v} {v} <{iri}> }}\n"),
            format!("@prefix p: <{iri}> . @prefix q: <http://a/> . p:g {{ q:x q:y q:z }}\n"),
            format!("@prefix p: <{iri}> . @prefix q: <http://a/> . GRAPH p:g {{ q:x q:y q:z }}\n"),
            format!("@prefix p: <{iri}> . @prefix q: <http://a/> . q:g {{ p:x q:y q:z }}\n"),
            format!("@prefix p: <{iri}> . @prefix q: <http://a/> . q:g {{ q:x p:y q:z }}\n"),
            format!("@prefix p: <{iri}> . @prefix q: <http://a/> . q:g {{ q:x q:y p:z , \"l\"^^p:d }}\n"),
            format!("@base <{iri}> . <g> {{ {v} {v} {v} }} {v} {{ <x> {v} {v} . {v} <y> {v} . {v} {v} <> }}\n"),
            format!("@prefix p: <http://a/> . p:{iri} {{ {v} {v} {v} }} {v} {{ p:{iri} {v} {v} . {v} p:{iri} {v} . {v} {v} p:{iri} }}\n"),
        ],
        "xml" => {
            let i = xesc(iri);
            vec![
                format!("<rdf:RDF xmlns:rdf=\"http://www.w3.org/1999/02/22-rdf-syntax-ns#\" xmlns:e=\"http://a/\"><rdf:Description rdf:about=\"{i}\"><e:p rdf:resource=\"{i}\"/><e:q rdf:datatype=\"{i}\">1</e:q></rdf:Description></rdf:RDF>"),
                format!("<rdf:RDF xmlns:rdf=\"http://www.w3.org/1999/02/22-rdf-syntax-ns#\" xmlns:e=\"http://a/\"><rdf:Description rdf:about=\"{i}\"><e:p>x</e:p></rdf:Description></rdf:RDF>"),
                format!("<rdf:RDF xmlns:rdf=\"http://www.w3.org/1999/02/22-rdf-syntax-ns#\" xmlns:e=\"http://a/\"><rdf:Description rdf:about=\"http://a/s\"><e:p rdf:resource=\"{i}\"/></rdf:Description></rdf:RDF>"),
                format!("<rdf:RDF xmlns:rdf=\"http://www.w3.org/1999/02/22-rdf-syntax-ns#\" xmlns:e=\"http://a/\"><rdf:Description rdf:about=\"http://a/s\"><e:q rdf:datatype=\"{i}\">1</e:q></rdf:Description></rdf:RDF>"),
                format!("<rdf:RDF xmlns:rdf=\"http://www.w3.org/1999/02/22-rdf-syntax-ns#\" xmlns:e=\"http://a/\" xmlns:f=\"{i}\"><rdf:Description rdf:about=\"http://a/s\"><f:p>x</f:p></rdf:Description></rdf:RDF>"),
                format!("<rdf:RDF xmlns:rdf=\"http://www.w3.org/1999/02/22-rdf-syntax-ns#\" xmlns:e=\"http://a/\" xmlns:f=\"{i}\"><rdf:Description rdf:about=\"http://a/s\" f:a=\"v\"><e:p><f:T/></e:p></rdf:Description></rdf:RDF>"),
                format!("<rdf:RDF xmlns:rdf=\"http://www.w3.org/1999/02/22-rdf-syntax-ns#\" xmlns:e=\"{i}\"><e:T rdf:about=\"http://a/s\"><e:p>x</e:p></e:T></rdf:RDF>"),
                format!("<rdf:RDF xmlns:rdf=\"http://www.w3.org/1999/02/22-rdf-syntax-ns#\" xmlns:e=\"http://a/\" xml:base=\"{i}\"><rdf:Description rdf:about=\"x\"><e:p rdf:resource=\"\"/></rdf:Description><rdf:Description rdf:ID=\"i\"/></rdf:RDF>"),
                format!("<rdf:RDF xmlns:rdf=\"http://www.w3.org/1999/02/22-rdf-syntax-ns#\" xmlns:e=\"http://a/\" xml:base=\"http://a/b/c?q#f\"><rdf:Description rdf:about=\"{i}\"><e:p rdf:resource=\"{i}\"/></rdf:Description></rdf:RDF>"),
            ]
        }
        _ => {
            let i = jesc(iri);
            vec![
                format!("{{\"@id\":{i},\"@type\":{i},{i}:{{\"@id\":{i}}}}}"),
                format!("{{\"@id\":{i},\"http://a/p\":1}}"),
                format!("{{\"@id\":\"http://a/s\",\"@type\":{i}}}"),
                format!("{{\"@id\":\"http://a/s\",{i}:1}}"),
                format!("{{\"@id\":\"http://a/s\",\"http://a/p\":{{\"@id\":{i}}}}}"),
                format!("{{\"@id\":\"http://a/s\",\"http://a/p\":{{\"@value\":\"1\",\"@type\":{i}}}}}"),
                format!("{{\"@context\":{{\"@base\":{i}}},\"@id\":\"x\",\"http://a/p\":{{\"@id\":\"\"}}}}"),
                format!("{{\"@context\":{{\"@vocab\":{i}}},\"@id\":\"http://a/s\",\"p\":{{\"@type\":\"T\"}}}}"),
                format!("{{\"@context\":{{\"@base\":\"http://a/b/c?q#f\"}},\"@id\":{i},\"http://a/p\":{{\"@id\":{i}}}}}"),
                format!("{{\"@graph\":[{{\"@id\":\"http://a/s\",\"http://a/p\":1}}],\"@id\":{i}}}"),
            ]
        }
    }
}

fn label_words(tier: Tier, f: &mut dyn FnMut(String)) {
    let alpha: Vec<&str> = match tier {
        Tier::Quick => vec!["a", "0", ".", "-", "_", ":", "é", "\u{B7}", "%"],
        Tier::Thorough => vec!["a", "0", ".", "-", "_", ":", "é", "\u{B7}", "\u{203F}", "\u{300}", "%", "\u{10000}", "\u{D7}", "A"],
    };
    words_upto(alpha.len(), tier.pick(3, 4), &mut |w| f(w.iter().map(|i| alpha[*i]).collect()));
}
fn label_documents(parser: &str, l: &str) -> Vec<String> {
    let jesc = |s: &str| serde_json::to_string(s).unwrap();
    match parser {
        "nt" => vec![format!("_:{l} <http://a/p> <http://a/o> .\n"), format!("<http://a/s> <http://a/p> _:{l} .\n")],
        "nq" | "gnq" => vec![format!("_:{l} <http://a/p> <http://a/o> <http://a/g> .\n"), format!("<http://a/s> <http://a/p> _:{l} <http://a/g> .\n"), format!("<http://a/s> <http://a/p> <http://a/o> _:{l} .\n")],
        "turtle" => vec![format!("_:{l} <http://a/p> <http://a/o> .\n"), format!("<http://a/s> <http://a/p> _:{l} .\n"), format!("[ <http://a/p> _:{l} ] <http://a/p> ( _:{l} ) .\n")],
        "trig" | "gtrig" => vec![
            format!("_:{l} {{ <http://a/s> <http://a/p> <http://a/o> }}\n"),
            format!("<http://a/g> {{ _:{l} <http://a/p> <http://a/o> }}\n"),
            format!("<http://a/g> {{ <http://a/s> <http://a/p> _:{l} }}\n"),
        ],
        "xml" => {
            let x = l.replace('&', "&amp;").replace('<', "&lt;").replace('"', "&quot;");
            vec![
                format!("<rdf:RDF xmlns:rdf=\"http://www.w3.org/1999/02/22-rdf-syntax-ns#\" xmlns:e=\"http://a/\"><rdf:Description rdf:nodeID=\"{x}\"><e:p>x</e:p></rdf:Description></rdf:RDF>"),
                format!("<rdf:RDF xmlns:rdf=\"http://www.w3.org/1999/02/22-rdf-syntax-ns#\" xmlns:e=\"http://a/\"><rdf:Description rdf:about=\"http://a/s\"><e:p rdf:nodeID=\"{x}\"/></rdf:Description></rdf:RDF>"),
            ]
        }
        _ => {
            let i = jesc(&format!("_:{l}"));
            vec![format!("{{\"@id\":{i},\"http://a/p\":{{\"@id\":{i}}}}}"), format!("{{\"@graph\":[{{\"@id\":{i},\"@type\":{i}}}],\"@id\":{i}}}")]
        }
    }
}

fn tag_words(tier: Tier, f: &mut dyn FnMut(String)) {
    let alpha: Vec<&str> = match tier {
        Tier::Quick => vec!["a", "1", "-", "_", "A", "é", "abcdefghi"],
        Tier::Thorough => vec!["a", "1", "-", "_", "A", "é", "abcdefghi", "x", "i", "12345678", " "],
    };
    words_upto(alpha.len(), tier.pick(3, 4), &mut |w| f(w.iter().map(|i| alpha[*i]).collect()));
}
fn tag_documents(parser: &str, t: &str) -> Vec<String> {
    let jesc = |s: &str| serde_json::to_string(s).unwrap();
    match parser {
        "nt" | "turtle" => vec![format!("<http://a/s> <http://a/p> \"x\"@{t} .\n")],
        "nq" | "gnq" => vec![format!("<http://a/s> <http://a/p> \"x\"@{t} <http://a/g> .\n")],
        "trig" | "gtrig" => vec![format!("{{ <http://a/s> <http://a/p> \"x\"@{t} }}\n")],
        "xml" => {
            let x = t.replace('&', "&amp;").replace('<', "&lt;").replace('"', "&quot;");
            vec![format!("<rdf:RDF xmlns:rdf=\"http://www.w3.org/1999/02/22-rdf-syntax-ns#\" xmlns:e=\"http://a/\"><rdf:Description rdf:about=\"http://a/s\" xml:lang=\"{x}\"><e:p>x</e:p><e:q xml:lang=\"{x}\">y</e:q></rdf:Description></rdf:RDF>")]
        }
        _ => {
            let i = jesc(t);
            vec![
                format!("{{\"@id\":\"http://a/s\",\"http://a/p\":{{\"@value\":\"x\",\"@language\":{i}}}}}"),
                format!("{{\"@context\":{{\"@language\":{i}}},\"@id\":\"http://a/s\",\"http://a/p\":\"x\"}}"),
            ]
        }
    }
}

fn var_words(tier: Tier, f: &mut dyn FnMut(String)) {
    let alpha = ["a", "0", "_", "é", "\u{B7}", "-", ".", "\u{203F}", ":"];
    words_upto(alpha.len(), tier.pick(3, 4), &mut |w| f(w.iter().map(|i| alpha[*i]).collect()));
}

/// JSON-LD: almost no token word is even JSON, so the syntax is also enumerated as *trees*: all
/// objects of <= 2 entries over 20 keys (keywords, an IRI, a term, a blank node key) whose values
/// are scalars, one-element arrays or (depth 2) single-entry objects
fn json_trees(tier: Tier, f: &mut dyn FnMut(String)) {
    const KEYS: [&str; 20] = [
        "@id", "@type", "@value", "@language", "@list", "@graph", "@reverse", "@set", "@index", "@direction", "@context", "@vocab", "@base", "@included", "@nest", "@container", "@version",
        "http://a/p", "t", "_:k",
    ];
    const SCALARS: [&str; 18] = [
        "\"http://a/x\"", "\"http://[::1]/\"", "\"r\"", "\"_:b\"", "\"_:b.\"", "\"en\"", "\"a-\"", "1e400", "1", "true", "null", "\"@id\"", "\"@json\"", "\"@none\"", "\"ltr\"", "[]", "{}", "1.1",
    ];
    let mut d1: Vec<String> = SCALARS.iter().map(|s| s.to_string()).collect();
    for s in SCALARS {
        d1.push(format!("[{s}]"));
    }
    let mut d2 = d1.clone();
    for k in KEYS {
        for v in SCALARS {
            d2.push(format!("{{\"{k}\":{v}}}"));
        }
    }
    // single-entry objects, values up to depth 2
    for k in KEYS {
        for v in &d2 {
            f(format!("{{\"{k}\":{v}}}"));
        }
    }
    // two-entry objects: scalar/array values; in the thorough tier one of the two values may be a nested object
    for (i, k1) in KEYS.iter().enumerate() {
        for k2 in &KEYS[i + 1..] {
            for v1 in &d1 {
                for v2 in &d1 {
                    f(format!("{{\"{k1}\":{v1},\"{k2}\":{v2}}}"));
                }
            }
            if tier == Tier::Thorough {
                for v1 in &d2[d1.len()..] {
                    for v2 in SCALARS {
                        f(format!("{{\"{k1}\":{v1},\"{k2}\":{v2}}}"));
                        f(format!("{{\"{k1}\":{v2},\"{k2}\":{v1}}}"));
                    }
                }
            }
        }
    }
}

const NEST_KINDS: [&str; 9] = ["collection", "property-list", "quoted-triple", "quoted-triple-object", "annotation", "xml-elements", "xml-parsetype-resource", "json-arrays", "json-objects"];
fn nest_applies(kind: &str, parser: &str) -> bool {
    match kind {
        "collection" | "property-list" | "annotation" => matches!(parser, "turtle" | "trig" | "gtrig"),
        "quoted-triple" | "quoted-triple-object" => matches!(parser, "nt" | "nq" | "gnq" | "turtle" | "trig" | "gtrig"),
        "xml-elements" | "xml-parsetype-resource" => parser == "xml",
        _ => parser == "jsonld",
    }
}
pub fn nest_doc(kind: &str, parser: &str, d: usize) -> Vec<u8> {
    let wrap = |s: String| if matches!(parser, "trig" | "gtrig") { format!("{{ {s} }}\n") } else { s };
    let s = match kind {
        "collection" => wrap(format!("<http://a/s> <http://a/p> {}1{} .\n", "( ".repeat(d), " )".repeat(d))),
        "property-list" => wrap(format!("<http://a/s> <http://a/p> {}1{} .\n", "[ <http://a/p> ".repeat(d), " ]".repeat(d))),
        "quoted-triple" => format!("{}<http://a/s>{} <http://a/p> <http://a/o> .\n", "<< ".repeat(d), " <http://a/p> <http://a/o> >>".repeat(d)),
        "quoted-triple-object" => format!("<http://a/s> <http://a/p> {}<http://a/o>{} .\n", "<< <http://a/s> <http://a/p> ".repeat(d), " >>".repeat(d)),
        "annotation" => wrap(format!("<http://a/s> <http://a/p> <http://a/o> {}{} .\n", "{| <http://a/p> <http://a/o> ".repeat(d), " |}".repeat(d))),
        "xml-elements" => format!(
            "<rdf:RDF xmlns:rdf=\"http://www.w3.org/1999/02/22-rdf-syntax-ns#\" xmlns:e=\"http://a/\"><rdf:Description>{}<e:p>x</e:p>{}</rdf:Description></rdf:RDF>",
            "<e:p><rdf:Description>".repeat(d),
            "</rdf:Description></e:p>".repeat(d)
        ),
        "xml-parsetype-resource" => format!(
            "<rdf:RDF xmlns:rdf=\"http://www.w3.org/1999/02/22-rdf-syntax-ns#\" xmlns:e=\"http://a/\"><rdf:Description>{}<e:p>x</e:p>{}</rdf:Description></rdf:RDF>",
            "<e:p rdf:parseType=\"Resource\">".repeat(d),
            "</e:p>".repeat(d)
        ),
        "json-arrays" => format!("{{\"@id\":\"http://a/s\",\"http://a/p\":{}1{}}}", "[".repeat(d), "]".repeat(d)),
        _ => format!("{}{{\"@id\":\"http://a/s\"}}{}", "{\"http://a/p\":".repeat(d), "}".repeat(d)),
    };
    s.into_bytes()
}
const LONG_KINDS: [&str; 6] = ["iri", "literal", "label", "prefix", "lang", "whitespace"];
pub fn long_doc(kind: &str, parser: &str, n: usize) -> Vec<u8> {
    let a = "a".repeat(n);
    let s = match (parser, kind) {
        ("xml", "iri") => format!("<rdf:RDF xmlns:rdf=\"http://www.w3.org/1999/02/22-rdf-syntax-ns#\" xmlns:e=\"http://a/\"><rdf:Description rdf:about=\"http://a/{a}\"><e:p>x</e:p></rdf:Description></rdf:RDF>"),
        ("xml", "literal") => format!("<rdf:RDF xmlns:rdf=\"http://www.w3.org/1999/02/22-rdf-syntax-ns#\" xmlns:e=\"http://a/\"><rdf:Description rdf:about=\"http://a/s\"><e:p>{}</e:p></rdf:Description></rdf:RDF>", "&amp;".repeat(n)),
        ("xml", "label") => format!("<rdf:RDF xmlns:rdf=\"http://www.w3.org/1999/02/22-rdf-syntax-ns#\" xmlns:e=\"http://a/\"><rdf:Description rdf:nodeID=\"{a}\"><e:p>x</e:p></rdf:Description></rdf:RDF>"),
        ("xml", "prefix") => format!("<rdf:RDF xmlns:rdf=\"http://www.w3.org/1999/02/22-rdf-syntax-ns#\" xmlns:{a}=\"http://a/\"><rdf:Description rdf:about=\"http://a/s\"><{a}:p>x</{a}:p></rdf:Description></rdf:RDF>"),
        ("xml", "lang") => format!("<rdf:RDF xmlns:rdf=\"http://www.w3.org/1999/02/22-rdf-syntax-ns#\" xmlns:e=\"http://a/\"><rdf:Description rdf:about=\"http://a/s\"><e:p xml:lang=\"en-{a}\">x</e:p></rdf:Description></rdf:RDF>"),
        ("xml", _) => format!("<rdf:RDF xmlns:rdf=\"http://www.w3.org/1999/02/22-rdf-syntax-ns#\" xmlns:e=\"http://a/\">{}<rdf:Description rdf:about=\"http://a/s\"><e:p>x</e:p></rdf:Description></rdf:RDF>", " ".repeat(n)),
        ("jsonld", "iri") => format!("{{\"@id\":\"http://a/{a}\",\"http://a/p\":1}}"),
        ("jsonld", "literal") => format!("{{\"@id\":\"http://a/s\",\"http://a/p\":\"{}\"}}", "\\n".repeat(n)),
        ("jsonld", "label") => format!("{{\"@id\":\"_:{a}\",\"http://a/p\":1}}"),
        ("jsonld", "prefix") => format!("{{\"@context\":{{\"{a}\":\"http://a/\"}},\"@id\":\"{a}:s\",\"{a}:p\":1}}"),
        ("jsonld", "lang") => format!("{{\"@id\":\"http://a/s\",\"http://a/p\":{{\"@value\":\"x\",\"@language\":\"en-{a}\"}}}}"),
        ("jsonld", _) => format!("{{{}\"@id\":\"http://a/s\",\"http://a/p\":1}}", " ".repeat(n)),
        (_, "iri") => format!("<http://a/{a}> <http://a/p> <http://a/o> .\n"),
        (_, "literal") => format!("<http://a/s> <http://a/p> \"{}\" .\n", "\\n".repeat(n)),
        (_, "label") => format!("_:{a} <http://a/p> <http://a/o> .\n"),
        ("turtle" | "trig" | "gtrig", "prefix") => format!("@prefix {a}: <http://a/> . {a}:s {a}:p {a}:{a} .\n"),
        (_, "prefix") => format!("<http://a/s> <http://a/p> <http://a/o> . # {a}\n"),
        (_, "lang") => format!("<http://a/s> <http://a/p> \"x\"@en-{a} .\n"),
        (_, _) => format!("<http://a/s> {} <http://a/p> <http://a/o> .\n", " ".repeat(n)),
    };
    s.into_bytes()
}

// ------------------------------------------------------------------------------------------

fn hex(b: &[u8]) -> String {
    b.iter().map(|x| format!("{x:02x}")).collect()
}
fn unhex(s: &str) -> Option<Vec<u8>> {
    if s.len() % 2 != 0 {
        return None;
    }
    (0..s.len() / 2).map(|i| u8::from_str_radix(&s[2 * i..2 * i + 2], 16).ok()).collect()
}

impl Pooled for C08 {
    type Case = Case;
    fn prop(&self) -> &'static str {
        "C08"
    }
    fn profiles(&self) -> Vec<&'static str> {
        vec!["checked", "dev", "release"]
    }
    fn case_profile(&self, c: &Case) -> Option<String> {
        Some(c.profile.clone())
    }
    fn enumerate(&self, tier: Tier, f: &mut dyn FnMut(&Case)) {
        // value-level families: optimised build with debug assertions + plain release build
        let mut emit = |parser: &str, family: &str, base: Option<&str>, data: Vec<u8>, f: &mut dyn FnMut(&Case)| {
            for profile in ["checked", "release"] {
                f(&Case { profile: profile.into(), parser: parser.into(), family: family.into(), base: base.map(String::from), input: Input::Bytes(data.clone()) });
            }
        };
        for parser in PARSERS {
            for seed in seeds(parser) {
                single_edits(seed.as_bytes(), tier, &mut |d| emit(parser, "seed-edit", None, d, f));
            }
            let toks = tokens(parser);
            let k = match (tier, parser) {
                (Tier::Quick, _) => 3,
                (Tier::Thorough, "jsonld") => 4,
                (Tier::Thorough, _) => 4,
            };
            words_upto(toks.len(), k, &mut |w| {
                let s: String = w.iter().map(|i| toks[*i]).collect::<Vec<_>>().join(" ");
                emit(parser, "tokens", None, s.into_bytes(), f);
            });
            iri_words(tier, &mut |iri| {
                for d in iri_documents(parser, &iri) {
                    emit(parser, "iri", None, d.into_bytes(), f);
                }
            });
            label_words(tier, &mut |l| {
                for d in label_documents(parser, &l) {
                    emit(parser, "label", None, d.into_bytes(), f);
                }
            });
            tag_words(tier, &mut |t| {
                for d in tag_documents(parser, &t) {
                    emit(parser, "tag", None, d.into_bytes(), f);
                }
            });
            if !strict(parser) {
                var_words(tier, &mut |v| {
                    for sigil in ["?", "$"] {
                        let d = if parser == "gnq" { format!("{sigil}{v} <http://a/p> {sigil}{v} {sigil}{v} .\n") } else { format!("{sigil}{v} {{ {sigil}{v} {sigil}{v} {sigil}{v} }}\n") };
                        emit(parser, "variable", None, d.into_bytes(), f);
                    }
                });
            }
            if parser == "jsonld" {
                json_trees(tier, &mut |d| emit(parser, "json-tree", None, d.into_bytes(), f));
            }
            // configured base
            if matches!(parser, "turtle" | "trig" | "gtrig" | "xml" | "jsonld") {
                iri_words(tier, &mut |iri| {
                    if Iri::new(iri.as_str()).is_ok() {
                        let doc = match parser {
                            "xml" => "<rdf:RDF xmlns:rdf=\"http://www.w3.org/1999/02/22-rdf-syntax-ns#\" xmlns:e=\"http://a/\"><rdf:Description rdf:about=\"x\"><e:p rdf:resource=\"\"/></rdf:Description></rdf:RDF>".to_string(),
                            "jsonld" => "{\"@id\":\"x\",\"http://a/p\":{\"@id\":\"\"}}".to_string(),
                            "turtle" => "<x> <../y> <> .\n".to_string(),
                            _ => "<x> { <x> <../y> <> }\n".to_string(),
                        };
                        emit(parser, "base", Some(&iri), doc.into_bytes(), f);
                    }
                });
            }
        }
        // structural families: unoptimised and release builds, 2 MiB thread
        let depths: &[usize] = tier.pick(&[1, 10, 100, 1000, 10_000][..], &[1, 10, 100, 1000, 10_000, 100_000, 1_000_000][..]);
        for parser in PARSERS {
            for kind in NEST_KINDS {
                if !nest_applies(kind, parser) {
                    continue;
                }
                for &d in depths {
                    for profile in ["dev", "release"] {
                        f(&Case { profile: profile.into(), parser: parser.into(), family: format!("nest:{kind}"), base: None, input: Input::Nest(kind.into(), d) });
                    }
                }
            }
            for kind in LONG_KINDS {
                for &n in tier.pick(&[1000, 100_000][..], &[1000, 100_000, 10_000_000][..]) {
                    for profile in ["dev", "release"] {
                        f(&Case { profile: profile.into(), parser: parser.into(), family: format!("long:{kind}"), base: None, input: Input::Long(kind.into(), n) });
                    }
                }
            }
        }
    }
    fn case_json(&self, c: &Case) -> Value {
        let input = match &c.input {
            Input::Bytes(b) => json!({"hex": hex(b), "text": String::from_utf8_lossy(b)}),
            Input::Nest(k, d) => json!({"nest": k, "depth": d}),
            Input::Long(k, n) => json!({"long": k, "len": n}),
        };
        json!({"profile": c.profile, "parser": c.parser, "family": c.family, "base": c.base, "input": input})
    }
    fn case_from_json(&self, v: &Value) -> Option<Case> {
        let i = v.get("input")?;
        let input = if let Some(h) = i.get("hex") {
            Input::Bytes(unhex(h.as_str()?)?)
        } else if let Some(k) = i.get("nest") {
            Input::Nest(k.as_str()?.into(), i.get("depth")?.as_u64()? as usize)
        } else {
            Input::Long(i.get("long")?.as_str()?.into(), i.get("len")?.as_u64()? as usize)
        };
        Some(Case {
            profile: v.get("profile")?.as_str()?.into(),
            parser: v.get("parser")?.as_str()?.into(),
            family: v.get("family")?.as_str()?.into(),
            base: v.get("base").and_then(|b| b.as_str()).map(String::from),
            input,
        })
    }
    fn timeout_s(&self) -> u64 {
        120
    }
    fn rlimit_as_bytes(&self) -> u64 {
        16 << 30
    }
    fn workers(&self) -> usize {
        10
    }
    fn crash_sig(&self, c: &Case, kind: &str) -> String {
        format!("{kind}:{}:{}", c.parser, c.family)
    }
    fn run(&self, c: &Case, st: &mut Stats) -> Vec<Violation> {
        assert_eq!(c.profile, my_profile(), "case routed to the wrong worker binary");
        let mut out = vec![];
        let data: Vec<u8> = match &c.input {
            Input::Bytes(b) => b.clone(),
            Input::Nest(k, d) => nest_doc(k, &c.parser, *d),
            Input::Long(k, n) => long_doc(k, &c.parser, *n),
        };
        let ran = match &c.input {
            Input::Bytes(_) => run_parser(&c.parser, c.base.as_deref(), &data),
            _ => {
                // structural inputs run on an ordinary 2 MiB thread
                let parser = c.parser.clone();
                let base = c.base.clone();
                std::thread::Builder::new()
                    .stack_size(2 << 20)
                    .spawn(move || run_parser(&parser, base.as_deref(), &data))
                    .expect("spawn")
                    .join()
                    .unwrap_or_else(|_| Ran::Panic("thread panicked".into()))
            }
        };
        st.inc("parses");
        st.inc(&format!("parses:{}", c.family.split(':').next().unwrap_or("")));
        let obs = match ran {
            Ran::Ok(o) => {
                st.outcome(if o.statements > 0 { "accepted-with-statements" } else { "accepted-empty" });
                o
            }
            Ran::Err(o, _) => {
                st.outcome(if o.statements > 0 { "error-after-statements" } else { "error" });
                o
            }
            Ran::Panic(p) => {
                st.outcome("panic");
                let head: String = p.chars().take(60).filter(|c| c.is_ascii_alphanumeric() || *c == ' ').collect::<String>().trim().replace(' ', "-");
                out.push(Violation::new(format!("panic:{}:{}", c.parser, head), format!("[{}, family {}] {}", c.profile, c.family, truncate(&p, 400)), self.case_json(c)));
                Obs::default()
            }
        };
        st.add("statements_checked", obs.statements);
        st.add("terms_checked", obs.terms);
        if obs.statements > 0 {
            st.inc("nontrivial");
        }
        let mut seen = std::collections::BTreeSet::new();
        for (defect, pos, s) in obs.bad {
            let pos0 = pos.split('.').next().unwrap_or("").to_string();
            let sig = format!("{defect}:{}:{}", c.parser, pos0);
            if seen.insert(sig.clone()) {
                out.push(Violation::new(sig, format!("[{}] term at {pos} yielded by the {} parser: {:?}", c.profile, c.parser, s), self.case_json(c)));
            }
        }
        out
    }
}

pub fn run(tier: Tier) -> Report {
    let mut rep = Report::new("C08", tier);
    let o = crate::pool::parent(&C08, tier, None);
    rep.stats.merge(&o.stats);
    // (counters of a worker that died since its last report are lost: the deterministic size of the
    //  enumeration is the number of cases; every one of them was run or attributed to a crash)
    rep.stats.add("states", rep.stats.get("enumerated"));
    rep.stats.add("transitions", rep.stats.get("parses"));
    rep.stats.add("validated", rep.stats.get("terms_checked"));
    rep.violations = o.violations;
    rep.caps = o.caps;
    rep.rule = format!(
        "8 parsers (nt nq turtle trig gnq gtrig xml jsonld/NoLoader) x families: every single edit (deletion, truncation, 8 bit flips, replacement and insertion of each of {} byte strings incl. ill-formed UTF-8) at every position of each seed document; every word of <= {} tokens over the syntax's token alphabet; every string of <= {} symbols over an IRI-oriented alphabet (incl. \\u escapes, brackets, percent, private-use and non-characters) under 5 templates, embedded at every IRI position of every syntax (subject/predicate/object/graph/datatype/prefix/base/pname/xmlns/xml:base/rdf:ID/@id/@type/@vocab/@base); blank node labels, language tags and variable names of <= {} symbols; JSON-LD trees (objects of <= 2 entries over 20 keys incl. 17 keywords, values = 18 scalars, one-element arrays, and single-entry objects); configured base IRIs accepted by Iri::new; each in the checked (debug assertions) and release builds; nesting ladders (collections, property lists, quoted triples, annotations, XML elements, parseType=Resource, JSON arrays and objects) to depth {} and single tokens of up to {} bytes in the dev and release builds on a 2 MiB thread; oracle: the parser returns (no hang, no crash, no panic) and every accessor of every yielded term returns a value accepted by the toolkit's own validator (absolute IRIs from strict parsers); non-trivial = at least one statement was yielded and checked",
        edit_alphabet(tier).len(),
        tier.pick(3, 4),
        tier.pick(2, 3),
        tier.pick(3, 4),
        tier.pick("10^4", "10^6"),
        tier.pick("10^5", "10^7"),
    );
    rep.bounds = json!({"token_words": tier.pick(3, 4), "iri_word_length": tier.pick(2, 3), "label_length": tier.pick(3, 4), "nest_depth": tier.pick(10_000, 1_000_000), "long_token": tier.pick(100_000, 10_000_000)});
    rep.assumptions = vec!["validity is decided by the toolkit's own validators (IriRef::new / Iri::new / BnodeId::new / LanguageTag::new / VarName::new)".into()];
    rep
}

pub fn replay(case: &Value) -> Vec<Violation> {
    crate::pool::parent(&C08, Tier::Quick, Some(case)).violations
}
