//! C05 — canonical N-Quads is a complete isomorphism invariant of the dataset (E2).
//! C06 — the output equals what W3C RDFC-1.0 specifies (E2, against model/refrdfc.rs).
use crate::fw::*;
use crate::model::graphs::*;
use crate::model::refnq;
use crate::model::refrdfc;
use crate::model::terms::*;
use rayon::prelude::*;
use serde_json::{Value, json};
use sophia_api::dataset::{MutableDataset, SetDataset};
use sophia_api::prelude::*;
use sophia_api::quad::Spog;
use sophia_api::term::SimpleTerm;
use sophia_c14n::hash::{Sha256, Sha384};
use sophia_c14n::rdfc10;
use std::collections::{BTreeMap, BTreeSet, HashMap, HashSet};

type ST = SimpleTerm<'static>;

#[derive(Clone, Copy, Debug, PartialEq)]
pub enum Container {
    Hash,
    BTree,
    Fast,
    Light,
}

fn build<D: MutableDataset + Default>(quads: &[AQuad]) -> D {
    let mut d = D::default();
    for q in quads {
        let ([s, p, o], g) = to_squad(q);
        let _ = d.insert(s, p, o, g);
    }
    d
}

/// Ok(document) / Err("unsupported: .." | "toxic: .." | "panic: .." | other)
pub fn sophia_canon_with(quads: &[AQuad], c: Container, sha384: bool, depth_factor: f32, perm_limit: usize) -> Result<String, String> {
    fn go<D: SetDataset>(d: &D, sha384: bool, df: f32, pl: usize) -> Result<String, String> {
        let mut out = Vec::new();
        let r = if sha384 { rdfc10::normalize_with::<Sha384, _, _>(d, &mut out, df, pl) } else { rdfc10::normalize_with::<Sha256, _, _>(d, &mut out, df, pl) };
        match r {
            Ok(()) => String::from_utf8(out).map_err(|e| format!("output is not UTF-8: {e}")),
            Err(sophia_c14n::C14nError::Unsupported(m)) => Err(format!("unsupported: {m}")),
            Err(sophia_c14n::C14nError::ToxicGraph(m)) => Err(format!("toxic: {m}")),
            Err(e) => Err(format!("error: {e}")),
        }
    }
    let r = guarded(|| match c {
        Container::Hash => go(&build::<HashSet<Spog<ST>>>(quads), sha384, depth_factor, perm_limit),
        Container::BTree => go(&build::<BTreeSet<Spog<ST>>>(quads), sha384, depth_factor, perm_limit),
        Container::Fast => go(&build::<sophia_inmem::dataset::FastDataset>(quads), sha384, depth_factor, perm_limit),
        Container::Light => go(&build::<sophia_inmem::dataset::LightDataset>(quads), sha384, depth_factor, perm_limit),
    });
    match r {
        Ok(x) => x,
        Err(p) => Err(format!("panic: {p}")),
    }
}
pub fn sophia_canon(quads: &[AQuad], c: Container, sha384: bool) -> Result<String, String> {
    sophia_canon_with(quads, c, sha384, rdfc10::DEFAULT_DEPTH_FACTOR, rdfc10::DEFAULT_PERMUTATION_LIMIT)
}

/// relabel: (returned quads as abstract quads, id map)
pub fn sophia_relabel(quads: &[AQuad], sha384: bool) -> Result<(Vec<AQuad>, BTreeMap<String, String>), String> {
    let r = guarded(|| {
        let d = build::<HashSet<Spog<ST>>>(quads);
        let r = if sha384 { rdfc10::relabel_sha384(&d) } else { rdfc10::relabel(&d) };
        match r {
            Ok((qs, map)) => {
                let aq: Vec<AQuad> = qs.iter().map(|q| from_quad(q)).collect();
                let m: BTreeMap<String, String> = map.iter().map(|(k, v)| (k.to_string(), v.as_str().to_string())).collect();
                Ok((aq, m))
            }
            Err(e) => Err(format!("error: {e}")),
        }
    });
    match r {
        Ok(x) => x,
        Err(p) => Err(format!("panic: {p}")),
    }
}

fn relabelled(quads: &[AQuad], labels: &[String], perm: &[usize], prefix: &str) -> Vec<AQuad> {
    let m: HashMap<&str, String> = labels.iter().enumerate().map(|(i, l)| (l.as_str(), format!("{prefix}{}", perm[i]))).collect();
    quads.iter().map(|q| quad_rename(q, &|b| m[b].clone())).collect()
}

fn perms_for(n: usize, all5: bool) -> Vec<Vec<usize>> {
    let mut v = vec![];
    if n <= 4 || (n == 5 && all5) {
        let mut p: Vec<usize> = (0..n).collect();
        loop {
            v.push(p.clone());
            if !next_perm(&mut p) {
                break;
            }
        }
    } else {
        let id: Vec<usize> = (0..n).collect();
        v.push(id.clone());
        v.push(id.iter().rev().cloned().collect());
        for r in 1..n.min(6) {
            v.push((0..n).map(|i| (i + r) % n).collect());
        }
        for k in 0..(n - 1).min(6) {
            let mut p = id.clone();
            p.swap(k, k + 1);
            v.push(p);
        }
        // an interleaving
        let mut p: Vec<usize> = (0..n).step_by(2).collect();
        p.extend((1..n).step_by(2));
        v.push(p);
    }
    v
}

pub struct GraphCase {
    pub name: String,
    pub quads: Vec<AQuad>,
    /// part of an exhaustive family for the partition check (family name, brute-force canonical key)
    pub family: Option<String>,
}

pub fn graph_cases(tier: Tier) -> Vec<GraphCase> {
    graph_cases_with(tier, false)
}
/// `full_lattice`: all 3-subsets of the dataset lattice even in the quick tier
pub fn graph_cases_with(tier: Tier, full_lattice: bool) -> Vec<GraphCase> {
    let mut v = vec![];
    // all digraphs with self-loops on <= 3 (quick) / 4 (thorough) blank nodes
    let nmax = tier.pick(3, 4);
    for n in 1..=nmax {
        for mask in 1..(1u64 << (n * n)) {
            let g = digraph(n, mask, true).unwrap();
            v.push(GraphCase { name: format!("digraph-with-loops(n={n},mask={mask})"), quads: g, family: Some(format!("digraphs-with-loops-{n}")) });
        }
    }
    // loop-free digraphs on 4 (quick) / 5 (thorough)
    let n = tier.pick(4, 5);
    for mask in 1..(1u64 << (n * n)) {
        if let Some(g) = digraph(n, mask, false) {
            // keep only graphs using all n nodes (the others are covered by smaller n)
            if quad_bnodes(&g).len() == n {
                v.push(GraphCase { name: format!("loop-free-digraph(n={n},mask={mask})"), quads: g, family: Some(format!("loop-free-digraphs-{n}")) });
            }
        }
    }
    // undirected graphs on <= 5 / 6 nodes
    let n = tier.pick(5, 6);
    for mask in 1..(1u64 << (n * (n - 1) / 2)) {
        let g = undirected(n, mask);
        if quad_bnodes(&g).len() == n {
            v.push(GraphCase { name: format!("undirected(n={n},mask={mask})"), quads: g, family: Some(format!("undirected-{n}")) });
        }
    }
    // decorated 3/4-node digraphs: one ground mark per selected node, and everything in a blank graph name
    let n = tier.pick(3, 4);
    let step = tier.pick(7, 1);
    for mask in (1..(1u64 << (n * n))).step_by(step) {
        let Some(g) = digraph(n, mask, false) else { continue };
        for marks in 1..(1u64 << n) {
            v.push(GraphCase { name: format!("marked-digraph(n={n},mask={mask},marks={marks})"), quads: decorate(&g, n, marks), family: None });
        }
        v.push(GraphCase { name: format!("digraph-in-blank-graph(n={n},mask={mask})"), quads: in_blank_graph(&g, "gg"), family: None });
        v.push(GraphCase { name: format!("digraph-in-own-node-graph(n={n},mask={mask})"), quads: in_blank_graph(&g, "e0"), family: None });
    }
    if full_lattice && tier == Tier::Quick {
        // (C06 is cheap per case: the 4-node digraphs inside a blank graph name are affordable in its quick tier)
        for mask in 1..(1u64 << 16) {
            let Some(g) = digraph(4, mask, false) else { continue };
            v.push(GraphCase { name: format!("digraph-in-blank-graph(n=4,mask={mask})"), quads: in_blank_graph(&g, "gg"), family: None });
            v.push(GraphCase { name: format!("digraph-in-own-node-graph(n=4,mask={mask})"), quads: in_blank_graph(&g, "e0"), family: None });
        }
    }
    // every dataset of <= 2 (quick; plus every 3rd 3-subset) / 3 (thorough) quads over a universe in which blank
    // nodes occur as subject, object and graph name, graph names are default / two IRIs / two blank
    // nodes, and the same triple can sit in several graphs
    {
        let subjects = [ATerm::b("a"), ATerm::b("b"), ATerm::b("c")];
        let preds = [p(), ATerm::iri("http://ex.org/q")];
        let objects = [ATerm::b("a"), ATerm::b("b"), ATerm::lit("1")];
        let graphs = [None, Some(ATerm::iri("http://ex.org/g")), Some(ATerm::b("c")), Some(ATerm::b("d"))];
        let mut u: Vec<AQuad> = vec![];
        for g in &graphs {
            for s in &subjects {
                for pr in &preds {
                    for o in &objects {
                        u.push(([s.clone(), pr.clone(), o.clone()], g.clone()));
                    }
                }
            }
        }
        let mut k3 = 0usize;
        subsets_upto(u.len(), 3, &mut |idx| {
            if idx.is_empty() {
                return;
            }
            if idx.len() == 3 {
                k3 += 1;
                if tier == Tier::Quick && !full_lattice && k3 % 3 != 0 {
                    return;
                }
            }
            let quads: Vec<AQuad> = idx.iter().map(|i| u[*i].clone()).collect();
            if quad_bnodes(&quads).is_empty() {
                return;
            }
            let name = format!("dataset-lattice({})", idx.iter().map(|i| i.to_string()).collect::<Vec<_>>().join(","));
            v.push(GraphCase { name, quads, family: Some("dataset-lattice".into()) });
        });
    }
    // symmetric families
    let top = tier.pick(7, 8);
    for n in 2..=top {
        v.push(GraphCase { name: format!("cycle({n})"), quads: cycle(n), family: None });
        if n <= 7 {
            v.push(GraphCase { name: format!("star({n})"), quads: star(n), family: None });
        }
        if n <= 5 {
            v.push(GraphCase { name: format!("clique({n})"), quads: clique(n), family: None });
        }
    }
    for (m, n) in [(1, 2), (2, 2), (2, 3), (3, 3)] {
        v.push(GraphCase { name: format!("K({m},{n})"), quads: bipartite(m, n), family: None });
    }
    for k in 2..=3 {
        v.push(GraphCase { name: format!("{k}-copies-of-cycle(3)"), quads: copies(&cycle(3), k), family: None });
        v.push(GraphCase { name: format!("{k}-copies-of-edge"), quads: copies(&cycle(2)[..1].to_vec(), k), family: None });
    }
    for n in [5, 6] {
        v.push(GraphCase { name: format!("ladder({n})"), quads: ladder(n), family: None });
    }
    for n in [10, 11, 12, 13] {
        v.push(GraphCase { name: format!("binary-tree({n})"), quads: binary_tree(n), family: None });
        v.push(GraphCase { name: format!("cycle({n})"), quads: cycle(n), family: None });
    }
    v
}

/// brute-force canonical key of a pure blank-node digraph: minimum over all relabellings of the sorted edge list
fn brute_force_key(g: &[AQuad]) -> String {
    let labels = quad_bnodes(g);
    let n = labels.len();
    let mut best: Option<Vec<String>> = None;
    let mut p: Vec<usize> = (0..n).collect();
    loop {
        let r = relabelled(g, &labels, &p, "k");
        let mut k: Vec<String> = r.iter().map(quad_nq).collect();
        k.sort();
        if best.as_ref().map(|b| k < *b).unwrap_or(true) {
            best = Some(k);
        }
        if !next_perm(&mut p) {
            break;
        }
    }
    best.unwrap_or_default().join("\n")
}

fn check_one(gc: &GraphCase, st: &mut Stats, out: &mut Vec<Violation>) -> Option<String> {
    let case = json!({"name": gc.name, "quads": quads_nq(&gc.quads)});
    let labels = quad_bnodes(&gc.quads);
    let n = labels.len();
    let base = match sophia_canon(&gc.quads, Container::Hash, false) {
        Ok(b) => b,
        Err(e) => {
            // symmetric structures may legitimately exceed the default limits
            if e.starts_with("toxic") {
                st.inc("toxic_with_default_limits");
                st.outcome("toxic");
            } else {
                out.push(Violation::new("canonicalisation-failed", format!("{}: {e}", gc.name), case));
            }
            return None;
        }
    };
    st.inc("states");
    st.outcome("ok");
    // (1) independence from labels, order, container, for both hash functions
    let base384 = sophia_canon(&gc.quads, Container::Hash, true);
    // all n! relabellings up to 4 nodes (5 for the families of moderate size), structured ones beyond
    let all5 = !gc.name.starts_with("loop-free-digraph(n=5");
    for perm in perms_for(n, all5) {
        let r = relabelled(&gc.quads, &labels, &perm, "zz");
        st.inc("validated");
        st.inc("transitions");
        match sophia_canon(&r, Container::Hash, false) {
            Ok(o) if o == base => {}
            other => {
                // is the difference the Recommendation's own (an independent implementation of RDFC-1.0
                // gives exactly these two documents), or the toolkit's?
                let w3c = match &other {
                    Ok(o) => w3c_gives(&r, o, false) && w3c_gives(&gc.quads, &base, false),
                    Err(_) => false,
                };
                let sig = if w3c { "rdfc10-itself-depends-on-labels" } else { "depends-on-labels" };
                out.push(Violation::new(sig, format!("{}: relabelling {perm:?} changes the canonical form: {:?} vs {:?}", gc.name, other, base), case.clone()));
                break;
            }
        }
    }
    {
        let perm: Vec<usize> = (0..n).rev().collect();
        let r = relabelled(&gc.quads, &labels, &perm, "y");
        let got = sophia_canon(&r, Container::BTree, true);
        if got != base384 {
            let w3c = match (&got, &base384) {
                (Ok(g), Ok(b)) => w3c_gives(&r, g, true) && w3c_gives(&gc.quads, b, true),
                _ => false,
            };
            out.push(Violation::new(if w3c { "rdfc10-itself-depends-on-labels" } else { "depends-on-labels:sha384" }, format!("{} (sha384)", gc.name), case.clone()));
        }
        st.inc("validated");
    }
    let mut rev = gc.quads.clone();
    rev.reverse();
    let mut rot = gc.quads.clone();
    rot.rotate_left(gc.quads.len() / 2);
    for c in [Container::BTree, Container::Fast, Container::Light, Container::Hash] {
        for (oname, order) in [("given", &gc.quads), ("reversed", &rev), ("rotated", &rot)] {
            st.inc("validated");
            if sophia_canon(order, c, false).as_ref() != Ok(&base) {
                out.push(Violation::new("depends-on-container-or-order", format!("{}: container {c:?}, insertion order {oname}", gc.name), case.clone()));
            }
        }
    }
    // (3) the output parses back to a dataset isomorphic to the input, labelled c14n0..c14n(n-1)
    match refnq::parse_doc(&base, false) {
        Err(e) => out.push(Violation::new("output-is-not-n-quads", format!("{}: {e}: {base:?}", gc.name), case.clone())),
        Ok(parsed) => {
            let got_labels: BTreeSet<String> = quad_bnodes(&parsed).into_iter().collect();
            let exp_labels: BTreeSet<String> = (0..n).map(|i| format!("c14n{i}")).collect();
            if got_labels != exp_labels {
                out.push(Violation::new("labels-not-c14n0..n", format!("{}: labels {got_labels:?}", gc.name), case.clone()));
            }
            // also parsed by the toolkit's own N-Quads parser
            let mut own: Vec<AQuad> = vec![];
            let ok = sophia_turtle::parser::nq::parse_str(&base).for_each_quad(|q| own.push(from_quad(&q))).is_ok();
            if !ok || own != parsed {
                out.push(Violation::new("output-not-read-back-by-nq-parser", format!("{}", gc.name), case.clone()));
            }
            // (4) the relabelling map is a bijection onto those names and reproduces the output
            match sophia_relabel(&gc.quads, false) {
                Err(e) => out.push(Violation::new("relabel-failed", format!("{}: {e}", gc.name), case.clone())),
                Ok((rq, map)) => {
                    let keys: BTreeSet<String> = map.keys().cloned().collect();
                    let vals: BTreeSet<String> = map.values().cloned().collect();
                    if keys != labels.iter().cloned().collect() || vals != exp_labels || map.len() != n {
                        out.push(Violation::new("id-map-not-a-bijection", format!("{}: {map:?}", gc.name), case.clone()));
                    } else {
                        let applied: BTreeSet<AQuad> = gc.quads.iter().map(|q| quad_rename(q, &|b| map[b].clone())).collect();
                        let returned: BTreeSet<AQuad> = rq.iter().cloned().collect();
                        let parsed_set: BTreeSet<AQuad> = parsed.iter().cloned().collect();
                        if applied != returned {
                            out.push(Violation::new("id-map-does-not-reproduce-returned-quads", format!("{}", gc.name), case.clone()));
                        }
                        if applied != parsed_set {
                            out.push(Violation::new("output-not-isomorphic-to-input", format!("{}: applying the id map to the input gives {:?}, the canonical document holds {:?}", gc.name, quads_nq(&applied.iter().cloned().collect::<Vec<_>>()), quads_nq(&parsed)), case.clone()));
                        }
                    }
                    st.add("validated", 3);
                }
            }
            if n <= 5 && !crate::model::iso::iso_with(&parsed, &gc.quads, false) {
                out.push(Violation::new("output-not-isomorphic-to-input:brute-force", gc.name.clone(), case.clone()));
            }
        }
    }
    Some(base)
}

pub fn run(tier: Tier) -> Report {
    let mut rep = Report::new("C05", tier);
    let cases = graph_cases(tier);
    rep.stats.add("graphs", cases.len() as u64);
    let res: Vec<(Stats, Vec<Violation>, Option<String>)> = cases
        .par_iter()
        .map(|gc| {
            let mut st = Stats::default();
            let mut out = vec![];
            let o = check_one(gc, &mut st, &mut out);
            (st, out, o)
        })
        .collect();
    // (2) partition of each exhaustive family by canonical output == partition by brute-force canonical key
    let mut fam: BTreeMap<String, Vec<(usize, String)>> = BTreeMap::new();
    for (i, (st, out, o)) in res.iter().enumerate() {
        rep.stats.merge(st);
        rep.violations.extend(out.iter().cloned());
        if let (Some(f), Some(o)) = (&cases[i].family, o) {
            fam.entry(f.clone()).or_default().push((i, o.clone()));
        }
    }
    for (f, members) in &fam {
        let keys: Vec<String> = members.par_iter().map(|(i, _)| brute_force_key(&cases[*i].quads)).collect();
        let mut out2key: HashMap<&str, &str> = HashMap::new();
        let mut key2out: HashMap<&str, (usize, &str)> = HashMap::new();
        for ((i, o), k) in members.iter().zip(&keys) {
            rep.stats.inc("validated");
            if let Some(k0) = out2key.insert(o.as_str(), k.as_str()) {
                if k0 != k.as_str() {
                    rep.violations.push(Violation::new("non-isomorphic-graphs-share-a-canonical-form", format!("{} and another graph of family {f}", cases[*i].name), json!({"name": cases[*i].name, "quads": quads_nq(&cases[*i].quads)})));
                }
            }
            if let Some((j, o0)) = key2out.insert(k.as_str(), (*i, o.as_str())) {
                if o0 != o.as_str() {
                    let w3c = w3c_gives(&cases[*i].quads, o, false) && w3c_gives(&cases[j].quads, o0, false);
                    let sig = if w3c { "rdfc10-itself-depends-on-labels" } else { "isomorphic-graphs-get-different-canonical-forms" };
                    rep.violations.push(Violation::new(sig, format!("{} and {} (family {f}) are isomorphic but get different canonical forms", cases[*i].name, cases[j].name), json!({"name": cases[*i].name, "quads": quads_nq(&cases[*i].quads), "other": quads_nq(&cases[j].quads)})));
                }
            }
        }
        rep.stats.add(&format!("classes[{f}]"), key2out.len() as u64);
        rep.stats.add("nontrivial", key2out.len() as u64);
    }
    rep.stats.sample(json!({"name": cases[cases.len() / 2].name, "quads": quads_nq(&cases[cases.len() / 2].quads)}));
    rep.rule = format!(
        "all digraphs with self-loops on <= {} blank nodes, all loop-free digraphs on {} nodes, all undirected graphs on {} nodes, 3/4-node digraphs decorated with every subset of ground marks and placed in a blank graph name (fresh or one of the nodes), every dataset of <= 3 quads over a 72-quad universe (subjects _:a _:b _:c, predicates p q, objects _:a _:b \"1\", graph names default / an IRI / _:c / _:d; quick: every 3rd 3-subset), symmetric families (cycles to 13, stars, cliques, K(m,n), disjoint copies, ladders, binary trees); each graph: all n! relabellings (n <= 4, and n = 5 except for the 1M loop-free digraphs; ~20 structured permutations otherwise), 3 insertion orders x 4 containers, SHA-256 and SHA-384; the output is parsed back (independent reader and the toolkit's parser), compared with the input through the returned id map and by brute-force isomorphism, and the partition of each exhaustive family by canonical form is compared with the partition by a brute-force canonical key; non-trivial = number of isomorphism classes met",
        tier.pick(3, 4),
        tier.pick(4, 5),
        tier.pick(5, 6)
    );
    rep.bounds = json!({"digraphs_with_loops_nodes": tier.pick(3, 4), "loop_free_digraph_nodes": tier.pick(4, 5), "undirected_nodes": tier.pick(5, 6)});
    rep.assumptions = vec!["language tags are compared literally, as the property states".into(), "a ToxicGraph error under the default limits is not a violation of this property (the property is conditional on success)".into()];
    rep
}

pub fn case_quads(case: &Value) -> Vec<AQuad> {
    case["quads"].as_array().map(|a| a.iter().filter_map(|q| q.as_str().and_then(|s| refnq::parse_quad(s).ok())).collect()).unwrap_or_default()
}

pub fn replay(case: &Value) -> Vec<Violation> {
    let gc = GraphCase { name: case["name"].as_str().unwrap_or("replay").to_string(), quads: case_quads(case), family: None };
    let mut st = Stats::default();
    let mut out = vec![];
    check_one(&gc, &mut st, &mut out);
    out
}

// =============================================================================================
// C06

/// does an independent implementation of the Recommendation produce exactly this document?
fn w3c_gives(quads: &[AQuad], doc: &str, sha384: bool) -> bool {
    ref_canon(quads, sha384).map(|c| c.doc == doc).unwrap_or(false)
}

fn ref_canon(quads: &[AQuad], sha384: bool) -> Option<refrdfc::Canon> {
    let qs: Option<Vec<refrdfc::Q>> = quads.iter().map(refrdfc::q_of).collect();
    let qs = qs?;
    Some(if sha384 { refrdfc::canonicalize::<refrdfc::S384>(&qs, true, true) } else { refrdfc::canonicalize::<refrdfc::S256>(&qs, true, true) })
}

/// validate the reference against the expected outputs shipped in the repository's own tests is
/// done once at start-up (see `validate_reference`)
fn c06_one(gc: &GraphCase, limits: bool, st: &mut Stats, out: &mut Vec<Violation>) {
    let case = json!({"name": gc.name, "quads": quads_nq(&gc.quads)});
    let twice = gc.quads.iter().any(|q| {
        let mut b = vec![];
        for t in q.0.iter().chain(q.1.iter()) {
            if let ATerm::Bnode(x) = t {
                b.push(x.clone());
            }
        }
        let n = b.len();
        b.sort();
        b.dedup();
        b.len() < n
    });
    let feature = if twice { "quad-mentions-a-blank-node-twice" } else { "each-blank-node-once-per-quad" };
    for sha384 in [false, true] {
        let Some(r) = ref_canon(&gc.quads, sha384) else {
            // unsupported input: sophia must say so
            st.inc("validated");
            match sophia_canon(&gc.quads, Container::Hash, sha384) {
                Err(e) if e.starts_with("unsupported") => st.outcome("unsupported-input-refused"),
                other => out.push(Violation::new("unsupported-input-not-refused", format!("{}: {:?}", gc.name, other), case.clone())),
            }
            continue;
        };
        let hname = if sha384 { "sha384" } else { "sha256" };
        st.inc("validated");
        st.inc("states");
        // with generous limits the result must be exactly the reference's
        let big = sophia_canon_with(&gc.quads, Container::Hash, sha384, 1000.0, 1000);
        match &big {
            Ok(doc) if *doc == r.doc => {
                st.inc("agree");
                st.outcome(if r.max_depth == 0 { "document-equal:first-degree-hashes-suffice" } else if r.max_group <= 1 { "document-equal:n-degree-hashing" } else { "document-equal:n-degree-hashing-with-permutations" });
            }
            Ok(doc) => out.push(Violation::new(
                format!("differs-from-rdfc10:{feature}"),
                format!("{} ({hname}): sophia gives {doc:?}, RDFC-1.0 gives {:?}", gc.name, r.doc),
                case.clone(),
            )),
            Err(e) => out.push(Violation::new(format!("fails-within-limits:{feature}"), format!("{} ({hname}): {e}", gc.name), case.clone())),
        }
        // the issued identifiers: for automorphic blank nodes the Recommendation leaves the choice
        // open (it depends on the order in which the input is traversed), so the map is compared
        // through its effect: applying it to the input must give the reference's document
        if !sha384 {
            if let Ok((_, map)) = sophia_relabel(&gc.quads, false) {
                let within_default = r.max_group <= rdfc10::DEFAULT_PERMUTATION_LIMIT && (r.max_depth as f32) <= rdfc10::DEFAULT_DEPTH_FACTOR * r.nbnodes as f32;
                let qs: Vec<refrdfc::Q> = gc.quads.iter().filter_map(refrdfc::q_of).collect();
                let all_mapped = quad_bnodes(&gc.quads).iter().all(|b| map.contains_key(b));
                if within_default && all_mapped {
                    let mut lines: Vec<String> = qs.iter().map(|q| refrdfc::nq_quad(q, &|b| map[b].clone())).collect();
                    lines.sort();
                    lines.dedup();
                    if lines.concat() != r.doc {
                        out.push(Violation::new(format!("issued-identifiers-differ:{feature}"), format!("{}: applying sophia's map {map:?} gives {:?}, RDFC-1.0 gives {:?}", gc.name, lines.concat(), r.doc), case.clone()));
                    }
                } else if within_default {
                    out.push(Violation::new(format!("issued-identifiers-incomplete:{feature}"), format!("{}: {map:?}", gc.name), case.clone()));
                }
                st.inc("validated");
            }
        }
        // limits: an Ok result never depends on them; ToxicGraph only if the limit is really exceeded
        if limits && !sha384 {
            for df in [0.0f32, 0.5, 1.0, 2.0] {
                for pl in [0usize, 1, 2, 3, 6] {
                    st.inc("validated");
                    st.inc("transitions");
                    let exceeded = r.max_group > pl || (r.max_depth as f32) > df * r.nbnodes as f32;
                    match sophia_canon_with(&gc.quads, Container::BTree, false, df, pl) {
                        Ok(doc) => {
                            // compared with the toolkit's own unlimited run, so that this check is
                            // independent of the comparison with the reference above
                            if Ok(&doc) != big.as_ref() {
                                out.push(Violation::new(format!("limits-change-the-result:{feature}"), format!("{}: depth_factor={df} permutation_limit={pl}", gc.name), case.clone()));
                            }
                        }
                        Err(e) if e.starts_with("toxic") => {
                            if !exceeded {
                                out.push(Violation::new(
                                    "toxic-although-within-limits",
                                    format!("{}: depth_factor={df} permutation_limit={pl}: {e}; the reference run needed recursion depth {} over {} blank nodes and permuted at most {} nodes", gc.name, r.max_depth, r.nbnodes, r.max_group),
                                    case.clone(),
                                ));
                            } else {
                                st.inc("toxic_confirmed");
                                st.outcome("toxic-error-justified-by-the-reference-counters");
                            }
                        }
                        Err(e) => out.push(Violation::new("unexpected-error", format!("{}: {e}", gc.name), case.clone())),
                    }
                }
            }
        }
    }
}

/// the reference must reproduce the expected outputs of the repository's own test-suite examples
fn validate_reference() {
    // example from the RDFC-1.0 specification (section "Examples", unique hashes) and a shared-hash example
    let doc = "_:e0 <http://example.com/#p1> _:e1 .\n_:e1 <http://example.com/#p2> \"Foo\" .\n";
    let q = refnq::parse_doc(doc, false).expect("reference self-test input");
    let r = ref_canon(&q, false).expect("supported");
    let expected = "_:c14n0 <http://example.com/#p1> _:c14n1 .\n_:c14n1 <http://example.com/#p2> \"Foo\" .\n";
    if r.doc != expected {
        eprintln!("ENGINE ERROR: reference RDFC-1.0 self-test failed: {:?}", r.doc);
        std::process::exit(2);
    }
    // spec example 2 ("shared hashes"): p q p q diamond
    let doc = "<http://example.com/#p> <http://example.com/#q> _:e0 .\n<http://example.com/#p> <http://example.com/#q> _:e1 .\n_:e0 <http://example.com/#p> _:e2 .\n_:e1 <http://example.com/#p> _:e3 .\n_:e2 <http://example.com/#r> _:e3 .\n";
    let q = refnq::parse_doc(doc, false).expect("reference self-test input");
    let r = ref_canon(&q, false).expect("supported");
    let expected = "<http://example.com/#p> <http://example.com/#q> _:c14n2 .\n<http://example.com/#p> <http://example.com/#q> _:c14n3 .\n_:c14n0 <http://example.com/#r> _:c14n1 .\n_:c14n2 <http://example.com/#p> _:c14n1 .\n_:c14n3 <http://example.com/#p> _:c14n0 .\n";
    if r.doc != expected {
        eprintln!("ENGINE ERROR: reference RDFC-1.0 self-test (shared hashes example) failed: {:?}", r.doc);
        std::process::exit(2);
    }
}

pub fn run_c06(tier: Tier) -> Report {
    let mut rep = Report::new("C06", tier);
    validate_reference();
    let mut cases = graph_cases_with(tier, true);
    // literals with every escape-relevant character, in object position, with a blank graph name
    let chars: Vec<char> = (0u32..0x100).chain([0x2028, 0xD7FF, 0xE000, 0xFFFD, 0xFFFE, 0xFFFF, 0x10000, 0x10FFFF]).filter_map(char::from_u32).collect();
    for c in chars {
        for (k, lit) in [ATerm::lit(&format!("a{c}b")), ATerm::typed(&format!("{c}"), "http://ex.org/dt"), ATerm::lang(&format!("{c}{c}"), "en-US")].into_iter().enumerate() {
            cases.push(GraphCase { name: format!("literal(U+{:04X},kind={k})", c as u32), quads: vec![([ATerm::iri("http://ex.org/s"), p(), lit], Some(ATerm::b("g")))], family: None });
        }
    }
    // unsupported inputs
    cases.push(GraphCase { name: "blank-predicate".into(), quads: vec![([ATerm::b("a"), ATerm::b("p"), ATerm::b("a")], None)], family: None });
    cases.push(GraphCase { name: "quoted-triple".into(), quads: vec![([ATerm::triple(ATerm::b("a"), p(), ATerm::b("b")), p(), ATerm::b("a")], None)], family: None });
    cases.push(GraphCase { name: "variable".into(), quads: vec![([ATerm::b("a"), p(), ATerm::var("v")], None)], family: None });
    cases.push(GraphCase { name: "variable-graph".into(), quads: vec![([ATerm::b("a"), p(), ATerm::b("a")], Some(ATerm::var("v")))], family: None });
    rep.stats.add("graphs", cases.len() as u64);
    let res: Vec<(Stats, Vec<Violation>)> = cases
        .par_iter()
        .enumerate()
        .map(|(i, gc)| {
            let mut st = Stats::default();
            let mut out = vec![];
            // the limits matrix on every 5th graph (quick) / every graph (thorough) with <= 6 nodes
            let limits = quad_bnodes(&gc.quads).len() <= 6 && (tier == Tier::Thorough && i % 3 == 0 || i % 17 == 0);
            match guarded(|| {
                let mut st = Stats::default();
                let mut out = vec![];
                c06_one(gc, limits, &mut st, &mut out);
                (st, out)
            }) {
                Ok((s, o)) => {
                    st = s;
                    out = o;
                }
                Err(p) => out.push(Violation::new("reference-or-subject-panic", format!("{}: {p}", gc.name), json!({"name": gc.name, "quads": quads_nq(&gc.quads)}))),
            }
            (st, out)
        })
        .collect();
    for (st, out) in res {
        rep.stats.merge(&st);
        rep.violations.extend(out);
    }
    rep.stats.add("nontrivial", rep.stats.get("agree"));
    rep.stats.sample(json!({"name": cases[cases.len() / 3].name, "quads": quads_nq(&cases[cases.len() / 3].quads)}));
    rep.rule = "the graph families of C05 (one labelling each) plus literals containing each code point U+0000-U+00FF, U+2028, U+D7FF, U+E000, U+FFFD, U+FFFE, U+FFFF, U+10000, U+10FFFF in three literal kinds, and unsupported inputs (blank predicate, quoted triple, variable); for SHA-256 and SHA-384 the document and (SHA-256) the issued identifier map must equal those of an independent implementation of RDFC-1.0 written from the Recommendation; on a complete slice of the graphs, every (depth_factor in {0, 0.5, 1, 2}) x (permutation_limit in {0,1,2,3,6}) setting must give the same document or a ToxicGraph error justified by the reference's own recursion depth / permutation group counters; non-trivial = comparisons in which both implementations produced a document".into();
    rep.bounds = json!({"as": "C05", "limit_matrix": "4 x 5"});
    rep.assumptions = vec![
        "A-C06-1: Recommendation step 2 ('for each blank node that is a component of Q, add a reference to Q') adds one reference per (blank node, quad), as the W3C reference implementation does with a Set".into(),
        "A-C06-2: canonical N-Quads escapes characters not matching the XML 1.1 Char production (U+FFFE, U+FFFF) with \\uXXXX".into(),
        "the reference implementation (model/refrdfc.rs) reproduces the two worked examples of the Recommendation".into(),
    ];
    rep
}

pub fn replay_c06(case: &Value) -> Vec<Violation> {
    let gc = GraphCase { name: case["name"].as_str().unwrap_or("replay").to_string(), quads: case_quads(case), family: None };
    let mut st = Stats::default();
    let mut out = vec![];
    c06_one(&gc, true, &mut st, &mut out);
    out
}
