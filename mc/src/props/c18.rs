//! C18 — RDF/XML serialisation round-trips every graph it accepts (E2 + E4, pooled).
use crate::fw::*;
use crate::model::iso::iso;
use crate::model::refnq;
use crate::model::terms::*;
use crate::model::xmlwf;
use crate::pool::Pooled;
use serde_json::{Value, json};
use sophia_api::prelude::*;
use sophia_api::serializer::{Stringifier, TripleSerializer};
use sophia_api::source::IntoSource;
use sophia_api::term::SimpleTerm;
use sophia_xml::serializer::{RdfXmlConfig, RdfXmlSerializer};

pub struct C18;

#[derive(Clone, Debug)]
pub struct Case {
    pub triples: Vec<[ATerm; 3]>,
    /// indentations to compare (the first one is the reference)
    pub indents: Vec<usize>,
}

// markup characters, white space, and the first/last character of every range of XML's Char production
const TEXT: [&str; 19] =
    ["a", "<", ">", "&", "\"", "'", " ", "\n", "\r", "\t", "]", "\u{10000}", "\u{85}", "\u{2028}", "&amp;", "\u{D7FF}", "\u{E000}", "\u{FFFD}", "\u{10FFFF}"];
// the first and last character of every range excluded by XML's Char production
const ILLEGAL: [&str; 8] = ["\0", "\u{1}", "\u{8}", "\u{b}", "\u{c}", "\u{e}", "\u{1f}", "\u{fffe}"];
const ILLEGAL2: [&str; 1] = ["\u{ffff}"];
const PRED_ENDINGS: [&str; 14] = ["#p", "/p", "/1p", "/p.q", "/", "#", ":p", "é", "/p-1", "/_", "#é1", "/a/%41", "?q=p", "/p·"];

fn ex(l: &str) -> ATerm {
    ATerm::iri(&format!("http://ex.org/{l}"))
}

fn expressible(t: &[ATerm; 3]) -> bool {
    matches!(t[0], ATerm::Iri(_) | ATerm::Bnode(_)) && matches!(t[1], ATerm::Iri(_)) && matches!(t[2], ATerm::Iri(_) | ATerm::Bnode(_) | ATerm::Lit(..))
}
fn xml_legal(t: &[ATerm; 3]) -> bool {
    t.iter().all(|x| match x {
        ATerm::Lit(_, _, lex) => lex.chars().all(xmlwf::is_xml_char),
        _ => true,
    })
}
/// can the predicate be written as an XML qualified name (namespace + NCName local part)?
fn predicate_has_qname(p: &ATerm) -> bool {
    let ATerm::Iri(i) = p else { return false };
    // some non-empty proper suffix is an NCName
    i.char_indices().any(|(k, _)| k > 0 && xmlwf::is_ncname(&i[k..]))
}

impl Pooled for C18 {
    type Case = Case;
    fn prop(&self) -> &'static str {
        "C18"
    }
    fn enumerate(&self, tier: Tier, f: &mut dyn FnMut(&Case)) {
        let all_indents: Vec<usize> = (0..=8).collect();
        // (1) literal text
        let maxlen = tier.pick(2, 3);
        let mut k = 0usize;
        words_upto(TEXT.len(), maxlen, &mut |w| {
            let lex: String = w.iter().map(|i| TEXT[*i]).collect();
            for lit in [ATerm::lit(&lex), ATerm::lang(&lex, "en"), ATerm::typed(&lex, "http://ex.org/dt"), ATerm::typed(&lex, &format!("{RDF}XMLLiteral"))] {
                k += 1;
                // every literal with indentation 0 and one rotating indentation; all 9 on a slice
                let indents = if k % 29 == 0 { all_indents.clone() } else { vec![0, 1 + k % 8] };
                f(&Case { triples: vec![[ex("s"), ex("p"), lit]], indents });
            }
        });
        // (2) XML-illegal characters: error or round trip
        for bad in ILLEGAL.iter().chain(ILLEGAL2.iter()) {
            for ctx in ["", "a", "<"] {
                let lex = format!("{ctx}{bad}{ctx}");
                f(&Case { triples: vec![[ex("s"), ex("p"), ATerm::lit(&lex)]], indents: vec![0, 2] });
                f(&Case { triples: vec![[ex("s"), ex("p"), ATerm::lang(&lex, "en")]], indents: vec![0] });
                // every literal kind: datatyped, rdf:XMLLiteral, rdf:HTML, xsd:integer
                for dt in ["http://ex.org/dt".to_string(), format!("{RDF}XMLLiteral"), format!("{RDF}HTML"), format!("{XSD}integer")] {
                    f(&Case { triples: vec![[ex("s"), ex("p"), ATerm::typed(&lex, &dt)]], indents: vec![0, 3] });
                }
            }
        }
        // (3) predicates with various namespace split points
        for base in ["http://ex.org", "http://ex.org/a", "urn:x"] {
            for e in PRED_ENDINGS {
                let iri = format!("{base}{e}");
                if sophia_iri::Iri::new(iri.as_str()).is_err() {
                    continue;
                }
                let p = ATerm::iri(&iri);
                f(&Case { triples: vec![[ex("s"), p.clone(), ATerm::lit("v")]], indents: vec![0, 2] });
                f(&Case { triples: vec![[ex("s"), p.clone(), ex("o")], [ex("s"), p.clone(), ATerm::b("b")]], indents: vec![0, 4] });
                // the same IRI as subject / object / datatype (attribute values)
                f(&Case { triples: vec![[p.clone(), ex("p"), p.clone()], [ex("s"), ex("p"), ATerm::typed("x", &iri)]], indents: vec![0, 1] });
            }
        }
        // (4) graphs of <= 3 triples over a small universe with shared blank nodes
        let subjects = [ex("s"), ATerm::b("a"), ATerm::b("b")];
        let preds = [ex("p"), ATerm::iri(&format!("{RDF}type"))];
        let objects = [ex("o"), ATerm::b("a"), ATerm::b("b"), ATerm::lit(" x "), ATerm::lang("x", "en")];
        let mut u: Vec<[ATerm; 3]> = vec![];
        for s in &subjects {
            for p in &preds {
                for o in &objects {
                    u.push([s.clone(), p.clone(), o.clone()]);
                }
            }
        }
        subsets_upto(u.len(), tier.pick(2, 3), &mut |idx| {
            if idx.len() >= 2 {
                f(&Case { triples: idx.iter().map(|i| u[*i].clone()).collect(), indents: vec![0, 3] });
            }
        });
        // (5) triples RDF/XML cannot express, mixed with expressible ones
        for bad in [[ATerm::lit("s"), ex("p"), ex("o")], [ex("s"), ATerm::b("p"), ex("o")], [ex("s"), ex("p"), ATerm::var("v")], [ATerm::triple(ex("s"), ex("p"), ex("o")), ex("p"), ex("o")], [ex("s"), ex("p"), ATerm::triple(ex("s"), ex("p"), ex("o"))]] {
            f(&Case { triples: vec![bad.clone()], indents: vec![0] });
            f(&Case { triples: vec![[ex("s"), ex("p"), ex("o")], bad.clone(), [ex("s"), ex("p"), ATerm::lit("v")]], indents: vec![0, 2] });
        }
    }
    fn case_json(&self, c: &Case) -> Value {
        json!({"triples": c.triples.iter().map(|t| quad_nq(&(t.clone(), None))).collect::<Vec<_>>(), "indentations": c.indents})
    }
    fn case_from_json(&self, v: &Value) -> Option<Case> {
        let mut triples = vec![];
        for q in v["triples"].as_array()? {
            triples.push(refnq::parse_quad(q.as_str()?).ok()?.0);
        }
        Some(Case { triples, indents: v["indentations"].as_array()?.iter().filter_map(|x| x.as_u64().map(|x| x as usize)).collect() })
    }
    fn run(&self, c: &Case, st: &mut Stats) -> Vec<Violation> {
        let case = self.case_json(c);
        let mut out = vec![];
        let striples: Vec<[SimpleTerm<'static>; 3]> = c.triples.iter().map(|t| [t[0].to_simple(), t[1].to_simple(), t[2].to_simple()]).collect();
        let legal = c.triples.iter().all(xml_legal);
        let qname_ok = c.triples.iter().filter(|t| expressible(t)).all(|t| predicate_has_qname(&t[1]));
        let all_expressible = c.triples.iter().all(expressible);
        let expected: Vec<AQuad> = c.triples.iter().filter(|t| expressible(t)).map(|t| (t.clone(), None)).collect();
        let feat = feature(c, legal, qname_ok, all_expressible);
        st.outcome(&feat);
        let mut reference: Option<Vec<AQuad>> = None;
        for indent in &c.indents {
            st.inc("validated");
            let text: Result<Result<String, String>, String> = guarded(|| {
                let mut ser = RdfXmlSerializer::new_stringifier_with_config(RdfXmlConfig::new().with_indentation(*indent));
                ser.serialize_triples(striples.clone().into_iter().into_source()).map_err(|e| e.to_string())?;
                Ok(ser.to_string())
            });
            let text = match text {
                Err(p) => {
                    out.push(Violation::new(format!("serializer-panic:{feat}"), p, case.clone()));
                    continue;
                }
                Ok(Err(e)) => {
                    // an error is fine -- unless the graph is one the property says is always accepted
                    st.inc("serializer_errors");
                    if legal && qname_ok && all_expressible {
                        out.push(Violation::new(format!("acceptable-graph-refused:{feat}"), format!("{:?} (indentation {indent}): {e}", case["triples"]), case.clone()));
                    }
                    continue;
                }
                Ok(Ok(t)) => t,
            };
            if let Err(e) = xmlwf::check(&text) {
                out.push(Violation::new(format!("output-not-well-formed-xml:{feat}"), format!("{:?} (indentation {indent}) serialised as {text:?}: {e}", case["triples"]), case.clone()));
                continue;
            }
            let back: Result<Result<Vec<AQuad>, String>, String> = guarded(|| {
                let mut v = vec![];
                sophia_xml::parser::parse_str(&text).for_each_triple(|t| v.push((from_triple(&t), None))).map_err(|e| e.to_string())?;
                Ok(v)
            });
            match back {
                Err(p) => out.push(Violation::new(format!("parser-panic:{feat}"), format!("{text:?}: {p}"), case.clone())),
                Ok(Err(e)) => out.push(Violation::new(format!("output-does-not-parse:{feat}"), format!("{:?} serialised as {text:?}: {e}", case["triples"]), case.clone())),
                Ok(Ok(v)) => {
                    if !iso(&v, &expected) {
                        let kind = if v.len() < expected.len() { "triples-lost" } else if v.len() > expected.len() { "triples-invented" } else { "triples-changed" };
                        // precisely identified cause: the reader returns "" for a whitespace-only literal
                        let emptied: Vec<AQuad> = expected
                            .iter()
                            .map(|q| {
                                let mut q = q.clone();
                                if let ATerm::Lit(dt, lang, lex) = &q.0[2] {
                                    if !lex.is_empty() && lex.chars().all(|ch| matches!(ch, ' ' | '\t' | '\n' | '\r')) {
                                        q.0[2] = ATerm::Lit(dt.clone(), lang.clone(), String::new());
                                    }
                                }
                                q
                            })
                            .collect();
                        let sig = if emptied != expected && iso(&v, &emptied) { "whitespace-only-literal-read-back-empty".to_string() } else { format!("{kind}:{feat}") };
                        out.push(Violation::new(sig, format!("{:?} (indentation {indent}) serialised as {text:?} parses as {:?}", case["triples"], quads_nq(&v)), case.clone()));
                    } else {
                        st.inc("round_trips_ok");
                        if text.contains("&amp;") || text.contains("&lt;") || text.contains("nodeID") || text.contains("xml:lang") {
                            st.inc("nontrivial");
                        }
                    }
                    match &reference {
                        None => reference = Some(v),
                        Some(r) => {
                            if !iso(r, &v) {
                                out.push(Violation::new(format!("indentation-changes-the-parse:{feat}"), format!("{:?}: indentation {} and {indent} parse differently", case["triples"], c.indents[0]), case.clone()));
                            }
                        }
                    }
                }
            }
        }
        out.truncate(3);
        out
    }
    fn timeout_s(&self) -> u64 {
        10
    }
    fn crash_sig(&self, c: &Case, kind: &str) -> String {
        format!("crash-{kind}:{}", feature(c, true, true, true))
    }
}

fn feature(c: &Case, legal: bool, qname_ok: bool, all_expressible: bool) -> String {
    let mut f: Vec<&str> = vec![];
    if !legal {
        f.push("xml-illegal-character");
    }
    if !qname_ok {
        f.push("predicate-without-qname");
    }
    if !all_expressible {
        f.push("inexpressible-triple");
    }
    let ws_only = c.triples.iter().any(|t| matches!(&t[2], ATerm::Lit(_, _, lex) if !lex.is_empty() && lex.chars().all(|ch| matches!(ch, ' ' | '\t' | '\n' | '\r'))));
    if ws_only {
        f.push("whitespace-only-literal");
    }
    if c.triples.iter().any(|t| matches!(&t[2], ATerm::Lit(_, _, lex) if lex.contains('\r'))) && !ws_only {
        f.push("carriage-return");
    }
    if f.is_empty() {
        f.push("ordinary");
    }
    f.join("+")
}

pub fn run(tier: Tier) -> Report {
    let mut rep = Report::new("C18", tier);
    let o = crate::pool::parent(&C18, tier, None);
    rep.stats.merge(&o.stats);
    rep.stats.add("states", rep.stats.get("cases_run"));
    rep.stats.add("transitions", rep.stats.get("validated"));
    rep.violations = o.violations;
    rep.caps = o.caps;
    rep.rule = format!(
        "literal text = every string of length <= {} over [a < > & \" ' space LF CR TAB ] U+10000 U+0085 U+2028 '&amp;' U+D7FF U+E000 U+FFFD U+10FFFF] in plain / language-tagged / datatyped / rdf:XMLLiteral-typed literals; XML-illegal characters (U+0000 U+0001 U+0008 U+000B U+000C U+000E U+001F U+FFFE U+FFFF) in three contexts x six literal kinds (plain, tagged, 4 datatypes); predicates (and the same IRIs as subject, object and datatype) over 3 bases x 14 endings (#p /p /1p /p.q / # :p é /p-1 /_ #é1 /a/%41 ?q=p /p·); every graph of 2..{} triples over a 30-triple universe with shared blank nodes; inexpressible triples mixed in; indentation 0..8 (0 plus a rotating value for every case, all nine on a slice); oracle: the serializer fails, or the output is well-formed XML according to an independent recogniser and parses (toolkit parser) to a graph isomorphic to the expressible part, identically for every indentation; graphs with XML-legal text and QName-able predicates must be accepted; non-trivial = output needed escaping, node IDs or xml:lang",
        tier.pick(2, 3),
        tier.pick(2, 3)
    );
    rep.bounds = json!({"text_length": tier.pick(2, 3), "graph_triples": tier.pick(2, 3), "indentations": "0..8"});
    rep.assumptions = vec!["well-formedness is decided by model/xmlwf.rs (XML 1.0 Char, QName, balanced tags, attribute syntax, references, declared prefixes)".into()];
    rep
}

pub fn replay(case: &Value) -> Vec<Violation> {
    crate::pool::parent(&C18, Tier::Quick, Some(case)).violations
}
