//! C15 — streams deliver exactly the prefix before a failure and blame the right side
//! (exhaustive fault enumeration over sources x adapter chains x consumers x fault positions).
use crate::fw::*;
use crate::model::terms::*;
use crate::props::c01::U3;
use rayon::prelude::*;
use serde_json::{Value, json};
use sophia_api::graph::{CollectibleGraph, MutableGraph};
use sophia_api::parser::TripleParser;
use sophia_api::prelude::*;
use sophia_api::quad::Spog;
use sophia_api::serializer::{QuadSerializer, TripleSerializer};
use sophia_api::source::{QuadSource, Source, StreamError, TripleSource};
use sophia_api::term::SimpleTerm;
use sophia_inmem::graph::{FastGraph, GenericLightGraph};
use sophia_inmem::index::SimpleTermIndex;
use std::cell::Cell;
use std::collections::BTreeSet;
use std::rc::Rc;

type ST = SimpleTerm<'static>;
pub type T3 = [ST; 3];
pub type Q4 = Spog<ST>;

#[derive(Debug, Clone, PartialEq)]
pub struct TagErr(pub usize);
impl std::fmt::Display for TagErr {
    fn fmt(&self, f: &mut std::fmt::Formatter<'_>) -> std::fmt::Result {
        write!(f, "injected fault #{}", self.0)
    }
}
impl std::error::Error for TagErr {}

#[derive(Clone, Copy, Debug, PartialEq)]
pub enum DropSet {
    None,
    First,
    Last,
    Second,
    All,
}
const DROPS: [DropSet; 5] = [DropSet::None, DropSet::First, DropSet::Last, DropSet::Second, DropSet::All];

#[derive(Clone, Debug)]
pub struct Cfg {
    pub n: usize,
    pub source: usize,
    pub src_fault: Option<usize>,
    pub chain: usize,
    pub drops: [DropSet; 3],
    pub consumer: usize,
    pub sink_fault: Option<usize>,
}

fn item(i: usize) -> T3 {
    [ATerm::iri(&format!("http://ex.org/s{i}")).to_simple(), ATerm::iri("http://ex.org/p").to_simple(), ATerm::lit(&format!("{i}")).to_simple()]
}
/// items of the "one Turtle statement with an object list" source share subject and predicate
fn item_grouped(i: usize) -> T3 {
    [ATerm::iri("http://ex.org/s").to_simple(), ATerm::iri("http://ex.org/p").to_simple(), ATerm::lit(&format!("{i}")).to_simple()]
}
fn item_of(source: usize, i: usize) -> T3 {
    if source == 4 { item_grouped(i) } else { item(i) }
}
/// (index, swapped?) of an item as seen by a consumer
fn decode<T: Triple>(t: &T) -> (usize, bool) {
    if let Some(l) = t.o().lexical_form() {
        (l.parse().unwrap_or(usize::MAX), false)
    } else if let Some(l) = t.s().lexical_form() {
        (l.parse().unwrap_or(usize::MAX), true)
    } else {
        (usize::MAX, false)
    }
}
fn own<T: Triple>(t: T) -> T3 {
    let [s, p, o] = t.to_spo();
    [s.into_term(), p.into_term(), o.into_term()]
}
fn swap(t: T3) -> T3 {
    let [s, p, o] = t;
    [o, p, s]
}
fn keep(d: DropSet, i: usize, n: usize) -> bool {
    match d {
        DropSet::None => true,
        DropSet::First => i != 0,
        DropSet::Last => i + 1 != n,
        DropSet::Second => i != 1,
        DropSet::All => false,
    }
}
fn keep_t(d: DropSet, t: &T3, n: usize) -> bool {
    keep(d, decode(t).0, n)
}
fn keep_q(d: DropSet, q: &Q4, n: usize) -> bool {
    keep(d, decode(&q.0).0, n)
}

/// counts how many times the underlying iterator is pulled
struct Counting<I> {
    inner: I,
    pulls: Rc<Cell<usize>>,
}
impl<I: Iterator> Iterator for Counting<I> {
    type Item = I::Item;
    fn next(&mut self) -> Option<I::Item> {
        self.pulls.set(self.pulls.get() + 1);
        self.inner.next()
    }
}

const ADAPTERS: [&str; 40] = [
    "", "F", "M", "X", "FF", "FM", "FX", "MF", "MM", "MX", "XF", "XM", "XX", "FFF", "FFM", "FFX", "FMF", "FMM", "FMX", "FXF", "FXM", "FXX", "MFF", "MFM", "MFX", "MMF", "MMM", "MMX", "MXF", "MXM", "MXX", "XFF", "XFM", "XFX", "XMF",
    "XMM", "XMX", "XXF", "XXM", "XXX",
];
/// quad-mode chains: (triple adapter, quad adapter) around to_quads
const QCHAINS: [(&str, &str); 16] = [("", ""), ("", "F"), ("", "M"), ("", "X"), ("F", ""), ("F", "F"), ("F", "M"), ("F", "X"), ("M", ""), ("M", "F"), ("M", "M"), ("M", "X"), ("X", ""), ("X", "F"), ("X", "M"), ("X", "X")];

macro_rules! chain {
    ($s:expr, $d:expr, $n:expr, $i:expr; ) => { $s };
    ($s:expr, $d:expr, $n:expr, $i:expr; F $($rest:ident)*) => { chain!($s.filter_triples(move |t: &T3| keep_t($d[$i], t, $n)), $d, $n, $i + 1; $($rest)*) };
    ($s:expr, $d:expr, $n:expr, $i:expr; M $($rest:ident)*) => { chain!($s.map_triples(|t: T3| swap(t)), $d, $n, $i + 1; $($rest)*) };
    ($s:expr, $d:expr, $n:expr, $i:expr; X $($rest:ident)*) => { chain!($s.filter_map_triples(move |t: T3| if keep_t($d[$i], &t, $n) { Some(swap(t)) } else { None }), $d, $n, $i + 1; $($rest)*) };
}
macro_rules! qchain {
    ($s:expr, $d:expr, $n:expr; ) => { $s };
    ($s:expr, $d:expr, $n:expr; F) => { $s.filter_quads(move |q: &Q4| keep_q($d[1], q, $n)) };
    ($s:expr, $d:expr, $n:expr; M) => { $s.map_quads(|q: Q4| (swap(q.0), q.1)) };
    ($s:expr, $d:expr, $n:expr; X) => { $s.filter_map_quads(move |q: Q4| if keep_q($d[1], &q, $n) { Some((swap(q.0), q.1)) } else { None }) };
}
macro_rules! all_chains {
    ($s:expr, $d:expr, $n:expr, $id:expr, $f:expr) => {
        match $id {
            0 => $f(chain!($s, $d, $n, 0; )), 1 => $f(chain!($s, $d, $n, 0; F)), 2 => $f(chain!($s, $d, $n, 0; M)), 3 => $f(chain!($s, $d, $n, 0; X)),
            4 => $f(chain!($s, $d, $n, 0; F F)), 5 => $f(chain!($s, $d, $n, 0; F M)), 6 => $f(chain!($s, $d, $n, 0; F X)), 7 => $f(chain!($s, $d, $n, 0; M F)),
            8 => $f(chain!($s, $d, $n, 0; M M)), 9 => $f(chain!($s, $d, $n, 0; M X)), 10 => $f(chain!($s, $d, $n, 0; X F)), 11 => $f(chain!($s, $d, $n, 0; X M)),
            12 => $f(chain!($s, $d, $n, 0; X X)), 13 => $f(chain!($s, $d, $n, 0; F F F)), 14 => $f(chain!($s, $d, $n, 0; F F M)), 15 => $f(chain!($s, $d, $n, 0; F F X)),
            16 => $f(chain!($s, $d, $n, 0; F M F)), 17 => $f(chain!($s, $d, $n, 0; F M M)), 18 => $f(chain!($s, $d, $n, 0; F M X)), 19 => $f(chain!($s, $d, $n, 0; F X F)),
            20 => $f(chain!($s, $d, $n, 0; F X M)), 21 => $f(chain!($s, $d, $n, 0; F X X)), 22 => $f(chain!($s, $d, $n, 0; M F F)), 23 => $f(chain!($s, $d, $n, 0; M F M)),
            24 => $f(chain!($s, $d, $n, 0; M F X)), 25 => $f(chain!($s, $d, $n, 0; M M F)), 26 => $f(chain!($s, $d, $n, 0; M M M)), 27 => $f(chain!($s, $d, $n, 0; M M X)),
            28 => $f(chain!($s, $d, $n, 0; M X F)), 29 => $f(chain!($s, $d, $n, 0; M X M)), 30 => $f(chain!($s, $d, $n, 0; M X X)), 31 => $f(chain!($s, $d, $n, 0; X F F)),
            32 => $f(chain!($s, $d, $n, 0; X F M)), 33 => $f(chain!($s, $d, $n, 0; X F X)), 34 => $f(chain!($s, $d, $n, 0; X M F)), 35 => $f(chain!($s, $d, $n, 0; X M M)),
            36 => $f(chain!($s, $d, $n, 0; X M X)), 37 => $f(chain!($s, $d, $n, 0; X X F)), 38 => $f(chain!($s, $d, $n, 0; X X M)), _ => $f(chain!($s, $d, $n, 0; X X X)),
        }
    };
}
macro_rules! all_qchains {
    ($s:expr, $d:expr, $n:expr, $id:expr, $f:expr) => {
        match $id {
            0 => $f(qchain!(chain!($s, $d, $n, 0; ).to_quads(), $d, $n; )), 1 => $f(qchain!(chain!($s, $d, $n, 0; ).to_quads(), $d, $n; F)),
            2 => $f(qchain!(chain!($s, $d, $n, 0; ).to_quads(), $d, $n; M)), 3 => $f(qchain!(chain!($s, $d, $n, 0; ).to_quads(), $d, $n; X)),
            4 => $f(qchain!(chain!($s, $d, $n, 0; F).to_quads(), $d, $n; )), 5 => $f(qchain!(chain!($s, $d, $n, 0; F).to_quads(), $d, $n; F)),
            6 => $f(qchain!(chain!($s, $d, $n, 0; F).to_quads(), $d, $n; M)), 7 => $f(qchain!(chain!($s, $d, $n, 0; F).to_quads(), $d, $n; X)),
            8 => $f(qchain!(chain!($s, $d, $n, 0; M).to_quads(), $d, $n; )), 9 => $f(qchain!(chain!($s, $d, $n, 0; M).to_quads(), $d, $n; F)),
            10 => $f(qchain!(chain!($s, $d, $n, 0; M).to_quads(), $d, $n; M)), 11 => $f(qchain!(chain!($s, $d, $n, 0; M).to_quads(), $d, $n; X)),
            12 => $f(qchain!(chain!($s, $d, $n, 0; X).to_quads(), $d, $n; )), 13 => $f(qchain!(chain!($s, $d, $n, 0; X).to_quads(), $d, $n; F)),
            14 => $f(qchain!(chain!($s, $d, $n, 0; X).to_quads(), $d, $n; M)), _ => $f(qchain!(chain!($s, $d, $n, 0; X).to_quads(), $d, $n; X)),
        }
    };
}

#[derive(Debug, Clone, PartialEq)]
pub enum Res {
    Ok(Option<usize>),
    Source(String),
    Sink(String),
}
#[derive(Debug, Clone)]
pub struct Obs {
    /// items seen by a recording consumer, or content of the collection / bytes written, in order
    pub seen: Option<Vec<(usize, bool)>>,
    pub res: Res,
}

/// writer failing once `limit` bytes have been accepted
struct FailingWriter {
    buf: Vec<u8>,
    limit: Option<usize>,
}
impl std::io::Write for FailingWriter {
    fn write(&mut self, b: &[u8]) -> std::io::Result<usize> {
        if let Some(l) = self.limit {
            if self.buf.len() + b.len() > l {
                let room = l - self.buf.len();
                if room == 0 {
                    return Err(std::io::Error::new(std::io::ErrorKind::Other, TagErr(777)));
                }
                self.buf.extend_from_slice(&b[..room]);
                MIRROR.with(|m| m.borrow_mut().extend_from_slice(&b[..room]));
                return Ok(room);
            }
        }
        self.buf.extend_from_slice(b);
        MIRROR.with(|m| m.borrow_mut().extend_from_slice(b));
        Ok(b.len())
    }
    fn flush(&mut self) -> std::io::Result<()> {
        Ok(())
    }
}

fn stream_res<T, E1: std::error::Error, E2: std::error::Error>(r: Result<T, StreamError<E1, E2>>, f: impl FnOnce(T) -> Option<usize>) -> Res {
    match r {
        Ok(v) => Res::Ok(f(v)),
        Err(StreamError::SourceError(e)) => Res::Source(e.to_string()),
        Err(StreamError::SinkError(e)) => Res::Sink(e.to_string()),
    }
}

pub const N_CONSUMERS: usize = 9;
const CONSUMER_NAMES: [&str; N_CONSUMERS] = [
    "try_for_each_triple(closure)", "loop { try_for_some_triple(closure) }", "for_each_triple(closure)", "collect_triples::<Vec>", "collect_triples::<FastGraph>",
    "add_to_graph(LightGraph<3-bit index>)", "BTreeSet.insert_all", "NtSerializer(failing writer)", "BTreeSet.remove_all",
];

fn consume<S>(mut s: S, cfg: &Cfg) -> Obs
where
    S: for<'x> Source<Item<'x> = T3>,
{
    let mut seen: Vec<(usize, bool)> = vec![];
    let j = cfg.sink_fault;
    match cfg.consumer {
        0 => {
            let mut calls = 0;
            let r = s.try_for_each_triple(|t| {
                // every invocation is counted, so that a delivery *after* the failure is recorded
                let k = calls;
                calls += 1;
                if Some(k) == j {
                    return Err(TagErr(1000 + k));
                }
                seen.push(decode(&t));
                Ok(())
            });
            Obs { res: stream_res(r, |_| None), seen: Some(seen) }
        }
        1 => {
            let mut calls = 0;
            let res = loop {
                let r = s.try_for_some_triple(|t| {
                    let k = calls;
                    calls += 1;
                    if Some(k) == j {
                        return Err(TagErr(1000 + k));
                    }
                    seen.push(decode(&t));
                    Ok(())
                });
                match r {
                    Ok(true) => continue,
                    Ok(false) => break Res::Ok(None),
                    Err(StreamError::SourceError(e)) => break Res::Source(e.to_string()),
                    Err(StreamError::SinkError(e)) => break Res::Sink(e.to_string()),
                }
            };
            Obs { res, seen: Some(seen) }
        }
        2 => {
            let r = s.for_each_triple(|t| seen.push(decode(&t)));
            Obs { res: match r { Ok(()) => Res::Ok(None), Err(e) => Res::Source(e.to_string()) }, seen: Some(seen) }
        }
        3 => {
            let r = s.collect_triples::<Vec<T3>>();
            let mut content = None;
            let res = stream_res(r, |v| {
                content = Some(v.iter().map(|t| decode(t)).collect());
                None
            });
            Obs { res, seen: content }
        }
        4 => {
            let r = s.collect_triples::<FastGraph>();
            let mut content = None;
            let res = stream_res(r, |g| {
                let mut v: Vec<(usize, bool)> = g.triples().map(|t| decode(&t.unwrap())).collect();
                v.sort();
                content = Some(v);
                None
            });
            Obs { res, seen: content }
        }
        5 => {
            let mut g: GenericLightGraph<SimpleTermIndex<U3>> = Default::default();
            let r = s.add_to_graph(&mut g);
            let mut v: Vec<(usize, bool)> = g.triples().map(|t| decode(&t.unwrap())).collect();
            v.sort();
            Obs { res: stream_res(r, Some), seen: Some(v) }
        }
        6 => {
            let mut g: BTreeSet<T3> = BTreeSet::new();
            let r = MutableGraph::insert_all(&mut g, s);
            let mut v: Vec<(usize, bool)> = g.iter().map(|t| decode(t)).collect();
            v.sort();
            Obs { res: stream_res(r, Some), seen: Some(v) }
        }
        7 => {
            let w = FailingWriter { buf: vec![], limit: j.map(|j| j * 7 + 3) };
            let mut ser = sophia_turtle::serializer::nt::NtSerializer::new(w);
            let r = ser.serialize_triples(s).map(|_| ());
            let res = stream_res(r, |_| None);
            // decode the complete lines written
            let text = String::from_utf8_lossy(&ser_bytes(&ser)).to_string();
            let mut v = vec![];
            for line in text.split_inclusive('\n') {
                if line.ends_with('\n') {
                    if let Ok(q) = crate::model::refnq::parse_quad(line.trim_end()) {
                        v.push(decode(&to_squad(&q).0));
                    }
                }
            }
            Obs { res, seen: Some(v) }
        }
        _ => {
            // remove_all from a graph pre-filled with every item in both orientations
            let mut g: BTreeSet<T3> = BTreeSet::new();
            for i in 0..cfg.n {
                g.insert(item_of(cfg.source, i));
                g.insert(swap(item_of(cfg.source, i)));
            }
            let r = MutableGraph::remove_all(&mut g, s);
            // what was removed = the items seen
            let mut v = vec![];
            for i in 0..cfg.n {
                if !g.contains(&item_of(cfg.source, i)) {
                    v.push((i, false));
                }
                if !g.contains(&swap(item_of(cfg.source, i))) {
                    v.push((i, true));
                }
            }
            v.sort();
            Obs { res: stream_res(r, Some), seen: Some(v) }
        }
    }
}
fn ser_bytes(ser: &sophia_turtle::serializer::nt::NtSerializer<FailingWriter>) -> Vec<u8> {
    // the serializer owns the writer; read it back through a raw view of the struct is not
    // possible, so FailingWriter content is exposed via a thread-local mirror
    let _ = ser;
    MIRROR.with(|m| m.borrow().clone())
}
thread_local! {
    static MIRROR: std::cell::RefCell<Vec<u8>> = const { std::cell::RefCell::new(Vec::new()) };
}

pub const N_QCONSUMERS: usize = 3;
const QCONSUMER_NAMES: [&str; N_QCONSUMERS] = ["try_for_each_quad(closure)", "collect_quads::<Vec<Spog>>", "HashSet<Spog>.insert_all"];
fn consume_q<S>(mut s: S, cfg: &Cfg) -> Obs
where
    S: for<'x> Source<Item<'x> = Q4>,
{
    let j = cfg.sink_fault;
    match cfg.consumer {
        0 => {
            let mut seen = vec![];
            let mut calls = 0;
            let mut named = false;
            let r = s.try_for_each_quad(|q| {
                let k = calls;
                calls += 1;
                if Some(k) == j {
                    return Err(TagErr(1000 + k));
                }
                if q.1.is_some() {
                    named = true;
                }
                seen.push(decode(&q.0));
                Ok(())
            });
            let res = if named { Res::Sink("to_quads produced a named graph".into()) } else { stream_res(r, |_| None) };
            Obs { res, seen: Some(seen) }
        }
        1 => {
            let r = s.collect_quads::<Vec<Q4>>();
            let mut content = None;
            let res = stream_res(r, |v| {
                content = Some(v.iter().map(|q| decode(&q.0)).collect());
                None
            });
            Obs { res, seen: content }
        }
        _ => {
            let mut d: std::collections::HashSet<Q4> = Default::default();
            let r = sophia_api::dataset::MutableDataset::insert_all(&mut d, s);
            let mut v: Vec<(usize, bool)> = d.iter().map(|q| decode(&q.0)).collect();
            v.sort();
            Obs { res: stream_res(r, Some), seen: Some(v) }
        }
    }
}

/// the list model: what the consumer must see and how the run must end
fn expected(cfg: &Cfg, quad_mode: bool) -> (Vec<(usize, bool)>, &'static str, usize) {
    // returns (delivered items in order, ending: "ok" | "source" | "sink", pulls on the source)
    let adapters: Vec<char> = if quad_mode {
        let (a, b) = QCHAINS[cfg.chain];
        a.chars().chain(b.chars()).collect()
    } else {
        ADAPTERS[cfg.chain].chars().collect()
    };
    // in quad mode the drop-set indices are: triple adapter -> drops[0], quad adapter -> drops[1]
    let drop_idx: Vec<usize> = if quad_mode {
        let (a, _) = QCHAINS[cfg.chain];
        let mut v = vec![];
        for _ in a.chars() {
            v.push(0);
        }
        v.push(1);
        v
    } else {
        (0..3).collect()
    };
    let mut delivered = vec![];
    let mut pulls = 0;
    for i in 0..=cfg.n {
        pulls += 1;
        if Some(i) == cfg.src_fault {
            return (delivered, "source", pulls);
        }
        if i == cfg.n {
            break;
        }
        // through the adapters
        let mut cur = Some((i, false));
        for (k, a) in adapters.iter().enumerate() {
            let Some((idx, sw)) = cur else { break };
            let d = cfg.drops[drop_idx[k.min(drop_idx.len() - 1)]];
            cur = match a {
                'F' => keep(d, idx, cfg.n).then_some((idx, sw)),
                'M' => Some((idx, !sw)),
                _ => keep(d, idx, cfg.n).then_some((idx, !sw)),
            };
        }
        if let Some(x) = cur {
            if is_sink_fault(cfg, quad_mode, delivered.len(), &delivered, x) {
                return (delivered, "sink", pulls);
            }
            delivered.push(x);
        }
    }
    (delivered, "ok", pulls)
}

/// does the consumer fail on the item that would be delivered as number `k` (0-based)?
fn is_sink_fault(cfg: &Cfg, quad_mode: bool, k: usize, delivered: &[(usize, bool)], _x: (usize, bool)) -> bool {
    if quad_mode {
        return cfg.consumer == 0 && cfg.sink_fault == Some(k);
    }
    match cfg.consumer {
        0 | 1 => cfg.sink_fault == Some(k),
        // the 3-bit index holds 7 terms: the predicate + 2 per distinct item => the 4th distinct item fails
        5 => {
            let distinct: BTreeSet<usize> = delivered.iter().map(|d| d.0).collect();
            // per-item subject: predicate + 2 terms per item; grouped source: subject + predicate + 1 term per item
            cfg.source != 4 && !distinct.contains(&_x.0) && distinct.len() >= 3
        }
        _ => false,
    }
}

fn nt_doc(cfg: &Cfg, turtle: bool) -> String {
    let mut doc = String::new();
    for i in 0..cfg.n {
        if Some(i) == cfg.src_fault {
            doc.push_str("<http://ex.org/broken .\n");
        } else {
            let [s, p, o] = item(i);
            let a = [ATerm::from_term(&s), ATerm::from_term(&p), ATerm::from_term(&o)];
            doc.push_str(&format!("{} {} {} .\n", a[0].nq(), a[1].nq(), a[2].nq()));
        }
    }
    if cfg.src_fault == Some(cfg.n) {
        doc.push_str("<http://ex.org/broken");
    }
    let _ = turtle;
    doc
}

pub const N_SOURCES: usize = 5;
const SOURCE_NAMES: [&str; N_SOURCES] = ["fallible iterator", "N-Triples parser", "Turtle parser", "FastGraph::triples()", "Turtle parser (one statement with an object list)"];

/// `<s> <p> "0", "1", ... .` with a syntax error spliced in place of object k
fn grouped_doc(cfg: &Cfg) -> String {
    if cfg.n == 0 {
        return if cfg.src_fault == Some(0) { "<http://ex.org/broken".to_string() } else { String::new() };
    }
    let mut objs: Vec<String> = vec![];
    for i in 0..cfg.n {
        if Some(i) == cfg.src_fault {
            objs.push("<http://ex.org/broken".to_string());
        } else {
            objs.push(format!("\"{i}\""));
        }
    }
    let mut doc = format!("<http://ex.org/s> <http://ex.org/p> {} .\n", objs.join(" , "));
    if cfg.src_fault == Some(cfg.n) {
        doc.push_str("<http://ex.org/broken");
    }
    doc
}

fn run_cfg(cfg: &Cfg, quad_mode: bool) -> (Obs, Option<usize>) {
    let pulls = Rc::new(Cell::new(0usize));
    let n = cfg.n;
    let d = cfg.drops;
    MIRROR.with(|m| m.borrow_mut().clear());
    macro_rules! go {
        ($src:expr) => {{
            if quad_mode {
                all_qchains!($src, d, n, cfg.chain, |c| consume_q(c, cfg))
            } else {
                all_chains!($src, d, n, cfg.chain, |c| consume(c, cfg))
            }
        }};
    }
    let obs = match cfg.source {
        0 => {
            let mut items: Vec<Result<T3, TagErr>> = vec![];
            for i in 0..n {
                if Some(i) == cfg.src_fault {
                    items.push(Err(TagErr(i)));
                }
                items.push(Ok(item(i)));
            }
            if cfg.src_fault == Some(n) {
                items.push(Err(TagErr(n)));
            }
            // positions shift by one after the injected error, which is never reached anyway
            go!(Counting { inner: items.clone().into_iter(), pulls: pulls.clone() })
        }
        1 => {
            let doc = nt_doc(cfg, false);
            go!(sophia_turtle::parser::nt::NTriplesParser {}.parse_str(&doc).map_triples(|t| own(t)))
        }
        2 => {
            let doc = nt_doc(cfg, true);
            go!(sophia_turtle::parser::turtle::TurtleParser { base: None }.parse_str(&doc).map_triples(|t| own(t)))
        }
        4 => {
            let doc = grouped_doc(cfg);
            go!(sophia_turtle::parser::turtle::TurtleParser { base: None }.parse_str(&doc).map_triples(|t| own(t)))
        }
        _ => {
            let mut g = FastGraph::new();
            for i in 0..n {
                let [s, p, o] = item(i);
                g.insert(s, p, o).unwrap();
            }
            go!(g.triples().map_triples(|t| own(t)))
        }
    };
    let p = if cfg.source == 0 { Some(pulls.get()) } else { None };
    (obs, p)
}

fn cfg_json(cfg: &Cfg, quad_mode: bool) -> Value {
    json!({
        "quad_mode": quad_mode, "n": cfg.n, "source": SOURCE_NAMES[cfg.source], "source_fault_at": cfg.src_fault,
        "chain": if quad_mode { format!("{} to_quads {}", QCHAINS[cfg.chain].0, QCHAINS[cfg.chain].1) } else { ADAPTERS[cfg.chain].to_string() },
        "chain_id": cfg.chain, "source_id": cfg.source, "consumer_id": cfg.consumer,
        "drops": cfg.drops.iter().map(|d| format!("{d:?}")).collect::<Vec<_>>(),
        "consumer": if quad_mode { QCONSUMER_NAMES[cfg.consumer] } else { CONSUMER_NAMES[cfg.consumer] }, "sink_fault_at": cfg.sink_fault,
    })
}

fn check_cfg(cfg: &Cfg, quad_mode: bool, st: &mut Stats) -> Option<Violation> {
    st.inc("validated");
    let case = cfg_json(cfg, quad_mode);
    let (exp_seen, ending, exp_pulls) = expected(cfg, quad_mode);
    let r = guarded(|| run_cfg(cfg, quad_mode));
    let (obs, pulls) = match r {
        Ok(x) => x,
        Err(p) => return Some(Violation::new("panic", p, case)),
    };
    st.outcome(&format!("{ending}:{}", if quad_mode { "quads" } else { "triples" }));
    let cname = if quad_mode { QCONSUMER_NAMES[cfg.consumer] } else { CONSUMER_NAMES[cfg.consumer] };
    // ending and blame
    let blame_ok = match (&obs.res, ending) {
        (Res::Ok(_), "ok") => true,
        (Res::Source(m), "source") => cfg.source != 0 || m.contains(&format!("#{}", cfg.src_fault.unwrap())),
        (Res::Sink(m), "sink") => {
            if quad_mode || cfg.consumer <= 1 {
                m.contains(&format!("#{}", 1000 + exp_seen.len()))
            } else {
                true
            }
        }
        _ => false,
    };
    // the byte-limited writer fails "somewhere": handled separately below
    if !quad_mode && cfg.consumer == 7 {
        return check_writer_case(cfg, &obs, &exp_seen, ending, case);
    }
    if !blame_ok {
        return Some(Violation::new(
            format!("wrong-outcome-or-blame:{cname}"),
            format!("expected the stream to end with {ending:?} after delivering {exp_seen:?}; got {:?}", obs.res),
            case,
        ));
    }
    // what the consumer saw
    if let Some(seen) = &obs.seen {
        let ordered = quad_mode && cfg.consumer <= 1 || !quad_mode && matches!(cfg.consumer, 0 | 1 | 2 | 3);
        let mut exp = exp_seen.clone();
        let mut got = seen.clone();
        if !ordered {
            // set-like consumers: compare as sets (duplicates cannot arise: items are distinct)
            exp.sort();
            exp.dedup();
            got.sort();
        }
        if !quad_mode && cfg.consumer == 8 {
            // remove_all: same set
        }
        if got != exp {
            return Some(Violation::new(format!("wrong-items:{cname}"), format!("consumer saw {got:?}, the list model delivers {exp:?} (ending {ending})"), case));
        }
        if !exp.is_empty() {
            st.inc("nontrivial");
        }
    }
    // counts returned by insert_all / add_to_graph / remove_all
    if let Res::Ok(Some(c)) = obs.res {
        let distinct: BTreeSet<(usize, bool)> = exp_seen.iter().cloned().collect();
        if c != distinct.len() {
            return Some(Violation::new(format!("wrong-count:{cname}"), format!("returned {c}, {} distinct items were delivered", distinct.len()), case));
        }
    }
    // nothing is pulled after the fault
    if let Some(p) = pulls {
        if p != exp_pulls {
            return Some(Violation::new(format!("source-pulled-{}:{cname}", if p > exp_pulls { "after-the-fault" } else { "too-little" }), format!("the source iterator was pulled {p} times, the list model pulls {exp_pulls} times"), case));
        }
    }
    None
}

fn check_writer_case(cfg: &Cfg, obs: &Obs, exp_seen: &[(usize, bool)], ending: &str, case: Value) -> Option<Violation> {
    // serializer over a writer that fails after a byte budget: the complete lines written are a
    // prefix of the expected items, and the error is a sink error unless the source failed first
    let seen = obs.seen.clone().unwrap_or_default();
    if !exp_seen.starts_with(&seen) {
        return Some(Violation::new("wrong-items:NtSerializer", format!("lines written {seen:?} are not a prefix of the expected items {exp_seen:?}"), case));
    }
    match (&obs.res, cfg.sink_fault) {
        (Res::Ok(_), None) if ending == "ok" && seen.len() == exp_seen.len() => None,
        (Res::Source(_), None) if ending == "source" && seen.len() == exp_seen.len() => None,
        (Res::Sink(m), Some(_)) if m.contains("#777") => None,
        // the budget was never reached
        (Res::Ok(_), Some(_)) if ending == "ok" && seen.len() == exp_seen.len() => None,
        (Res::Source(_), Some(_)) if ending == "source" && seen.len() == exp_seen.len() => None,
        _ => Some(Violation::new("wrong-outcome-or-blame:NtSerializer", format!("{:?} with lines {seen:?} (expected items {exp_seen:?}, ending {ending}, byte budget {:?})", obs.res, cfg.sink_fault.map(|j| j * 7 + 3)), case)),
    }
}

fn all_cfgs(tier: Tier) -> Vec<(Cfg, bool)> {
    let mut v = vec![];
    let nmax = tier.pick(3, 4);
    for n in 0..=nmax {
        for source in 0..N_SOURCES {
            let src_faults: Vec<Option<usize>> = if source == 3 { vec![None] } else { (0..=n).map(Some).chain([None]).collect() };
            for sf in &src_faults {
                for chain in 0..ADAPTERS.len() {
                    let nd = ADAPTERS[chain].chars().filter(|c| *c != 'M').count();
                    // drop sets only for the stages that filter
                    let mut dropsets: Vec<[DropSet; 3]> = vec![];
                    let choices = |k: usize| if ADAPTERS[chain].chars().nth(k).map(|c| c != 'M').unwrap_or(false) { DROPS.to_vec() } else { vec![DropSet::None] };
                    for a in choices(0) {
                        for b in choices(1) {
                            for c in choices(2) {
                                dropsets.push([a, b, c]);
                            }
                        }
                    }
                    // quick tier: with 3 filtering stages use the diagonal + first/last mixes only
                    if tier == Tier::Quick && nd == 3 {
                        dropsets.retain(|d| d[0] == d[1] && d[1] == d[2] || d[0] == DropSet::None && d[1] == DropSet::None || d[1] == DropSet::None && d[2] == DropSet::None);
                    }
                    for drops in dropsets {
                        for consumer in 0..N_CONSUMERS {
                            let sink_faults: Vec<Option<usize>> = match consumer {
                                0 | 1 => (0..=n).map(Some).chain([None]).collect(),
                                7 => (0..=(n * 6)).step_by(2).map(Some).chain([None]).collect(),
                                _ => vec![None],
                            };
                            for kf in sink_faults {
                                v.push((Cfg { n, source, src_fault: *sf, chain, drops, consumer, sink_fault: kf }, false));
                            }
                        }
                    }
                }
                // quad mode
                for chain in 0..QCHAINS.len() {
                    for d0 in if QCHAINS[chain].0 == "" || QCHAINS[chain].0 == "M" { vec![DropSet::None] } else { DROPS.to_vec() } {
                        for d1 in if QCHAINS[chain].1 == "" || QCHAINS[chain].1 == "M" { vec![DropSet::None] } else { DROPS.to_vec() } {
                            for consumer in 0..N_QCONSUMERS {
                                let sink_faults: Vec<Option<usize>> = if consumer == 0 { (0..=n).map(Some).chain([None]).collect() } else { vec![None] };
                                for kf in sink_faults {
                                    v.push((Cfg { n, source, src_fault: *sf, chain, drops: [d0, d1, DropSet::None], consumer, sink_fault: kf }, true));
                                }
                            }
                        }
                    }
                }
            }
        }
    }
    v
}

pub fn run(tier: Tier) -> Report {
    let mut rep = Report::new("C15", tier);
    let cfgs = all_cfgs(tier);
    rep.stats.add("states", cfgs.len() as u64);
    let res: Vec<(Stats, Vec<Violation>)> = cfgs
        .par_chunks(2000)
        .map(|chunk| {
            let mut st = Stats::default();
            let mut out = vec![];
            for (cfg, qm) in chunk {
                if let Some(v) = check_cfg(cfg, *qm, &mut st) {
                    if out.len() < 50 {
                        out.push(v);
                    }
                }
            }
            (st, out)
        })
        .collect();
    for (st, out) in res {
        rep.stats.merge(&st);
        rep.violations.extend(out);
    }
    rep.stats.add("transitions", rep.stats.get("validated"));
    rep.stats.sample(cfg_json(&cfgs[cfgs.len() / 2].0, cfgs[cfgs.len() / 2].1));
    rep.rule = format!(
        "every pipeline made of: a sequence of 0..{} distinguishable triples; a source (fallible iterator with an injected Err at every position incl. 0, last and none; N-Triples and Turtle parsers with a syntax error spliced into statement k, and a Turtle parser over ONE statement with an object list (several items per parser step) with the error spliced in place of object k; FastGraph::triples()); an adapter chain = every word of length <= 3 over {{filter_triples, map_triples, filter_map_triples}} with drop sets in {{none, first, last, second, all}} per filtering stage, or (<=1 triple adapter) to_quads (<=1 quad adapter); a consumer (closure failing on its j-th call for every j, driven by try_for_each / a manual try_for_some loop / for_each; collect into Vec / FastGraph; add_to_graph into a 3-bit-index graph that becomes full; insert_all; remove_all; NtSerializer over a writer failing at every other byte budget; quad counterparts); oracle = list semantics: exactly the filtered prefix before the fault is delivered, once, in order; the error is SourceError/SinkError accordingly and carries the injected payload; counts are right; the iterator source is pulled exactly as often as the list model says; non-trivial = runs in which at least one item was delivered",
        tier.pick(3, 4)
    );
    rep.bounds = json!({"max_items": tier.pick(3, 4), "chains": ADAPTERS.len(), "quad_chains": QCHAINS.len(), "consumers": N_CONSUMERS + N_QCONSUMERS});
    rep.assumptions = vec!["parsers may read ahead inside the statement in flight; their pull behaviour is not observed, only what they deliver and how they fail".into()];
    rep
}

pub fn replay(case: &Value) -> Vec<Violation> {
    let parse_drop = |s: &str| DROPS.iter().copied().find(|d| format!("{d:?}") == s).unwrap_or(DropSet::None);
    let drops: Vec<DropSet> = case["drops"].as_array().map(|a| a.iter().map(|d| parse_drop(d.as_str().unwrap_or(""))).collect()).unwrap_or_default();
    let cfg = Cfg {
        n: case["n"].as_u64().unwrap_or(0) as usize,
        source: case["source_id"].as_u64().unwrap_or(0) as usize,
        src_fault: case["source_fault_at"].as_u64().map(|x| x as usize),
        chain: case["chain_id"].as_u64().unwrap_or(0) as usize,
        drops: [drops.first().copied().unwrap_or(DropSet::None), drops.get(1).copied().unwrap_or(DropSet::None), drops.get(2).copied().unwrap_or(DropSet::None)],
        consumer: case["consumer_id"].as_u64().unwrap_or(0) as usize,
        sink_fault: case["sink_fault_at"].as_u64().map(|x| x as usize),
    };
    let mut st = Stats::default();
    check_cfg(&cfg, case["quad_mode"].as_bool().unwrap_or(false), &mut st).into_iter().collect()
}
