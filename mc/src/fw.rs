//! Framework: tiers, violations, known findings, evidence files, replay files.
use serde_json::{Value, json};
use std::collections::{BTreeMap, BTreeSet};
use std::path::PathBuf;
use std::time::Instant;

pub const VERIF_DIR: &str = "/verif";

#[derive(Clone, Copy, Debug, PartialEq, Eq)]
pub enum Tier {
    Quick,
    Thorough,
}
impl Tier {
    pub fn name(self) -> &'static str {
        match self {
            Tier::Quick => "quick",
            Tier::Thorough => "thorough",
        }
    }
    pub fn pick<T>(self, q: T, t: T) -> T {
        match self {
            Tier::Quick => q,
            Tier::Thorough => t,
        }
    }
}

/// One disagreement between the code and the oracle.
#[derive(Clone, Debug)]
pub struct Violation {
    /// failure signature (class of failure + distinguishing features); matched against known findings
    pub sig: String,
    /// human readable
    pub detail: String,
    /// replayable case (property specific JSON)
    pub case: Value,
}
impl Violation {
    pub fn new(sig: impl Into<String>, detail: impl Into<String>, case: Value) -> Self {
        Violation { sig: sig.into(), detail: detail.into(), case }
    }
    pub fn to_json(&self) -> Value {
        json!({"sig": self.sig, "detail": self.detail, "case": self.case})
    }
    pub fn from_json(v: &Value) -> Option<Self> {
        Some(Violation {
            sig: v.get("sig")?.as_str()?.to_string(),
            detail: v.get("detail")?.as_str()?.to_string(),
            case: v.get("case")?.clone(),
        })
    }
}

/// Counters and samples accumulated by an exploration (mergeable across workers).
#[derive(Clone, Debug, Default)]
pub struct Stats {
    pub counters: BTreeMap<String, u64>,
    pub samples: Vec<Value>,
    pub outcomes: BTreeSet<String>,
}
impl Stats {
    pub fn add(&mut self, key: &str, n: u64) {
        if let Some(c) = self.counters.get_mut(key) {
            *c += n;
        } else {
            self.counters.insert(key.to_string(), n);
        }
    }
    pub fn inc(&mut self, key: &str) {
        self.add(key, 1)
    }
    pub fn max(&mut self, key: &str, n: u64) {
        let e = self.counters.entry(key.to_string()).or_insert(0);
        if n > *e {
            *e = n;
        }
    }
    pub fn get(&self, key: &str) -> u64 {
        self.counters.get(key).copied().unwrap_or(0)
    }
    pub fn sample(&mut self, v: Value) {
        if self.samples.len() < 6 {
            self.samples.push(v);
        }
    }
    /// record one distinct observed outcome class (bounded)
    pub fn outcome(&mut self, s: &str) {
        if self.outcomes.len() < 4096 && !self.outcomes.contains(s) {
            self.outcomes.insert(s.to_string());
        }
    }
    pub fn merge(&mut self, other: &Stats) {
        for (k, v) in &other.counters {
            if k.starts_with("max_") {
                self.max(k, *v);
            } else {
                self.add(k, *v);
            }
        }
        for s in &other.samples {
            self.sample(s.clone());
        }
        for o in &other.outcomes {
            self.outcome(o);
        }
    }
    pub fn to_json(&self) -> Value {
        json!({"counters": self.counters, "samples": self.samples, "outcomes": self.outcomes})
    }
    pub fn from_json(v: &Value) -> Stats {
        let mut s = Stats::default();
        if let Some(c) = v.get("counters").and_then(|c| c.as_object()) {
            for (k, v) in c {
                s.counters.insert(k.clone(), v.as_u64().unwrap_or(0));
            }
        }
        if let Some(a) = v.get("samples").and_then(|c| c.as_array()) {
            s.samples = a.clone();
        }
        if let Some(a) = v.get("outcomes").and_then(|c| c.as_array()) {
            for o in a {
                if let Some(o) = o.as_str() {
                    s.outcomes.insert(o.to_string());
                }
            }
        }
        s
    }
}

pub struct Finding {
    pub property: String,
    pub key: String,
    pub what: String,
}

pub fn load_findings() -> Vec<Finding> {
    let p = format!("{VERIF_DIR}/known_findings.json");
    let Ok(txt) = std::fs::read_to_string(&p) else {
        return vec![];
    };
    let v: Value = serde_json::from_str(&txt).expect("known_findings.json is not valid JSON");
    let mut out = vec![];
    for f in v.get("findings").and_then(|f| f.as_array()).cloned().unwrap_or_default() {
        out.push(Finding {
            property: f["property"].as_str().unwrap_or("").to_string(),
            key: f["key"].as_str().unwrap_or("").to_string(),
            what: f["what"].as_str().unwrap_or("").to_string(),
        });
    }
    out
}

/// Everything a check reports at the end of a run.
pub struct Report {
    pub prop: &'static str,
    pub tier: Tier,
    pub seed: u64,
    pub start: Instant,
    pub stats: Stats,
    pub violations: Vec<Violation>,
    /// description of the enumeration and of what makes a case non-trivial
    pub rule: String,
    pub exhaustive: bool,
    pub caps: Vec<String>,
    pub assumptions: Vec<String>,
    pub bounds: Value,
    /// names of counters mapped onto the schema's keys
    pub states_key: &'static str,
    pub transitions_key: &'static str,
    pub validated_key: &'static str,
    pub nontrivial_key: &'static str,
}

impl Report {
    pub fn new(prop: &'static str, tier: Tier) -> Self {
        let seed = std::env::var("VERIF_SEED").ok().and_then(|s| s.parse().ok()).unwrap_or(0);
        Report {
            prop,
            tier,
            seed,
            start: Instant::now(),
            stats: Stats::default(),
            violations: vec![],
            rule: String::new(),
            exhaustive: true,
            caps: vec![],
            assumptions: vec![],
            bounds: Value::Null,
            states_key: "states",
            transitions_key: "transitions",
            validated_key: "validated",
            nontrivial_key: "nontrivial",
        }
    }

    /// Classify violations, write replay files + evidence, print the verdict lines; returns exit code.
    pub fn finish(mut self) -> i32 {
        let findings = load_findings();
        let mut known: BTreeMap<String, (u64, String)> = BTreeMap::new();
        let mut unknown: BTreeMap<String, (u64, Violation)> = BTreeMap::new();
        for v in &self.violations {
            if findings.iter().any(|f| f.property == self.prop && f.key == v.sig) {
                let e = known.entry(v.sig.clone()).or_insert((0, v.detail.clone()));
                e.0 += 1;
            } else {
                let e = unknown.entry(v.sig.clone()).or_insert((0, v.clone()));
                e.0 += 1;
            }
        }
        for (sig, (n, detail)) in &known {
            let what = findings
                .iter()
                .find(|f| f.property == self.prop && &f.key == sig)
                .map(|f| f.what.clone())
                .unwrap_or_default();
            println!(
                "KNOWN-FINDING: property={} key={} occurrences={} {} (e.g. {})",
                self.prop,
                sig,
                n,
                what,
                truncate(detail, 300)
            );
        }
        let dir = PathBuf::from(format!("{VERIF_DIR}/replays/{}", self.prop));
        let mut exit = 0;
        if !unknown.is_empty() {
            let _ = std::fs::create_dir_all(&dir);
            exit = 1;
        }
        let mut replay_paths = vec![];
        if !unknown.is_empty() {
            // the complete list of signatures (replay files are written for the first 25 only)
            let all: Vec<String> = unknown.iter().map(|(sig, (n, v))| format!("{n}\t{sig}\t{}", truncate(&v.detail, 400))).collect();
            let _ = std::fs::write(dir.join("ALL_SIGNATURES.tsv"), all.join("\n") + "\n");
        }
        for (i, (sig, (n, v))) in unknown.iter().enumerate() {
            if i >= 25 {
                println!("... {} more violation signatures not written", unknown.len() - 25);
                break;
            }
            let name: String = sig
                .chars()
                .map(|c| if c.is_ascii_alphanumeric() || c == '-' || c == '_' { c } else { '_' })
                .take(80)
                .collect();
            let path = dir.join(format!("{}-{}.json", name, fnv(&v.case.to_string()) % 100000));
            let body = json!({"property": self.prop, "sig": sig, "detail": v.detail, "occurrences": n, "case": v.case});
            let _ = std::fs::write(&path, serde_json::to_string_pretty(&body).unwrap());
            println!(
                "VIOLATION property={} replay={} sig={} occurrences={} {}",
                self.prop,
                path.display(),
                sig,
                n,
                truncate(&v.detail, 400)
            );
            replay_paths.push(path.display().to_string());
        }
        // evidence
        let wall = self.start.elapsed().as_secs_f64();
        let states = self.stats.get(self.states_key);
        let transitions = self.stats.get(self.transitions_key);
        let validated = self.stats.get(self.validated_key);
        let nontrivial = self.stats.get(self.nontrivial_key);
        if self.stats.samples.is_empty() {
            self.stats.samples.push(json!("no sample recorded"));
        }
        let mut coverage = json!({
            "states": states,
            "transitions": transitions,
            "traces_validated_against_impl": validated,
            "evaluations": self.stats.get("evaluations").max(validated).max(states),
            "distinct_nontrivial": nontrivial,
            "rule": self.rule,
            "samples": self.stats.samples,
            "exhaustive": self.exhaustive && self.caps.is_empty(),
            "caps_hit": self.caps,
            "bounds": self.bounds,
            "counters": self.stats.counters,
            "distinct_outcomes": self.stats.outcomes.len(),
            "known_finding_occurrences": known.iter().map(|(k, v)| (k.clone(), v.0)).collect::<BTreeMap<_, _>>(),
            "unlisted_violation_signatures": unknown.keys().collect::<Vec<_>>(),
            "replays": replay_paths,
        });
        if self.stats.outcomes.len() <= 64 {
            coverage["outcome_classes"] = json!(self.stats.outcomes);
        }
        let ev = json!({
            "property_id": self.prop,
            "tier": self.tier.name(),
            "seed": self.seed,
            "level": "model_checking",
            "coverage": coverage,
            "assumptions": self.assumptions,
            "wall_s": wall,
            "violations": unknown.values().map(|v| v.0).sum::<u64>(),
        });
        let evdir = format!("{VERIF_DIR}/evidence");
        let _ = std::fs::create_dir_all(&evdir);
        std::fs::write(format!("{evdir}/{}.json", self.prop), serde_json::to_string_pretty(&ev).unwrap())
            .expect("cannot write evidence");
        println!(
            "{} {}: states={} transitions={} validated={} nontrivial={} outcomes={} known={} violations={} exhaustive={} wall={:.1}s",
            self.prop,
            self.tier.name(),
            states,
            transitions,
            validated,
            nontrivial,
            self.stats.outcomes.len(),
            known.values().map(|v| v.0).sum::<u64>(),
            unknown.values().map(|v| v.0).sum::<u64>(),
            self.exhaustive && self.caps.is_empty(),
            wall
        );
        exit
    }
}

pub fn truncate(s: &str, n: usize) -> String {
    if s.chars().count() <= n {
        s.to_string()
    } else {
        let t: String = s.chars().take(n).collect();
        format!("{t}…")
    }
}

pub fn fnv(s: &str) -> u64 {
    let mut h: u64 = 0xcbf29ce484222325;
    for b in s.bytes() {
        h ^= b as u64;
        h = h.wrapping_mul(0x100000001b3);
    }
    h
}

/// Run `f` catching panics; the panic message is returned as Err.
pub fn guarded<T>(f: impl FnOnce() -> T) -> Result<T, String> {
    match std::panic::catch_unwind(std::panic::AssertUnwindSafe(f)) {
        Ok(v) => Ok(v),
        Err(e) => {
            let msg = if let Some(s) = e.downcast_ref::<&str>() {
                s.to_string()
            } else if let Some(s) = e.downcast_ref::<String>() {
                s.clone()
            } else {
                "non-string panic payload".to_string()
            };
            Err(msg)
        }
    }
}

/// Install a panic hook that stays silent (panics are caught and reported by the oracles).
pub fn quiet_panics() {
    if std::env::var("MC_LOUD_PANICS").is_err() {
        std::panic::set_hook(Box::new(|_| {}));
    }
}

/// Next lexicographic permutation; false when wrapped around.
pub fn next_perm(perm: &mut [usize]) -> bool {
    let n = perm.len();
    if n < 2 {
        return false;
    }
    let mut i = n - 1;
    while i > 0 && perm[i - 1] >= perm[i] {
        i -= 1;
    }
    if i == 0 {
        return false;
    }
    let mut j = n - 1;
    while perm[j] <= perm[i - 1] {
        j -= 1;
    }
    perm.swap(i - 1, j);
    perm[i..].reverse();
    true
}

/// Enumerate all k-subsets (k in 0..=kmax) of 0..n in DFS order, calling f(subset). Returns (nodes, edges) visited.
pub fn subsets_upto(n: usize, kmax: usize, f: &mut dyn FnMut(&[usize])) -> (u64, u64) {
    fn rec(n: usize, kmax: usize, cur: &mut Vec<usize>, f: &mut dyn FnMut(&[usize]), nodes: &mut u64, edges: &mut u64) {
        *nodes += 1;
        f(cur);
        if cur.len() == kmax {
            return;
        }
        let start = cur.last().map(|x| x + 1).unwrap_or(0);
        for i in start..n {
            cur.push(i);
            *edges += 1;
            rec(n, kmax, cur, f, nodes, edges);
            cur.pop();
        }
    }
    let (mut nodes, mut edges) = (0, 0);
    rec(n, kmax, &mut vec![], f, &mut nodes, &mut edges);
    (nodes, edges)
}

/// All words of length 0..=maxlen over an alphabet of `n` symbols (as index vectors), shortest first.
pub fn words_upto(n: usize, maxlen: usize, f: &mut dyn FnMut(&[usize])) -> u64 {
    let mut count = 0;
    for len in 0..=maxlen {
        let mut w = vec![0usize; len];
        loop {
            f(&w);
            count += 1;
            let mut i = len;
            let mut carry = true;
            while carry && i > 0 {
                i -= 1;
                w[i] += 1;
                if w[i] < n {
                    carry = false;
                } else {
                    w[i] = 0;
                }
            }
            if carry {
                break;
            }
        }
    }
    count
}
